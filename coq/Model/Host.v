(* url/hostparser.go *)
From Verif Require Import Lib.Base Lib.Utf8 Lib.GoStr Model.Cfg Gen.Tables Model.Sets Model.Percent Model.Url.

(* result of a function that returns (value, error) and may record validation errors in u *)
Inductive res (A : Type) := Ok (u : url) (a : A) | Er (u : url) (e : verr).
Arguments Ok {A}. Arguments Er {A}.

(* `if err := p.handleError(...); err != nil { return ..., err }` *)
Definition herr {A} (c : cfg) (u : url) (t : etype) (failure : bool) (k : url -> res A) : res A :=
  let '(u', oe) := handleError c u t failure in
  match oe with Some e => Er u' e | None => k u' end.

(* ---------- IPv4 ---------- *)
Inductive numres := NumOk (n : N) (validationError : bool) | NumErr (range : bool).

(* parseIPv4Number on a non-empty input (the empty input is handled by the callers as the code does) *)
Definition parseIPv4Number_nonempty (input : str) : numres :=
  let '(radix, ve, digits) :=
    match input with
    | 48 :: x :: rest =>
        if (x =? 120) || (x =? 88) then (16, true, rest) else (8, true, x :: rest)
    | _ => (10, false, input)
    end in
  match digits with
  | [] => NumOk 0 true
  | _ =>
    if forallb (fun ch => ((radix =? 16) && isHexDigit ch) || ((radix =? 10) && isDigit ch) || ((radix =? 8) && (48 <=? ch) && (ch <=? 55))) digits
    then let n := digits_val radix digits in
         if n <? 9223372036854775808 then NumOk n ve else NumErr true   (* strconv.ErrRange *)
    else NumErr false
  end.

Definition parseIPv4Number (c : cfg) (u : url) (input : str) : url * numres :=
  match input with
  | [] => let '(u', _) := handleError c u IPv4EmptyPart true in (u', NumErr false)
  | _ => (u, parseIPv4Number_nonempty input)
  end.

Definition endsInANumber (c : cfg) (u : url) (input : str) : url * bool :=
  let parts := split 46 input in
  let parts := match last_opt parts with
               | Some [] => if (len parts =? 1)%Z then [] else drop_last parts
               | _ => parts end in
  match last_opt parts with
  | None => (u, false)                       (* single empty part *)
  | Some [] => (u, false)
  | Some last =>
      if all_in isDigit last then (u, true)
      else match parseIPv4Number c u last with
           | (u', NumOk _ _) => (u', true)
           | (u', NumErr range) => (u', range)
           end
  end.

Definition IPv4String (a : N) : str :=
  itoa (a / 16777216) ++ [46] ++ itoa ((a / 65536) mod 256) ++ [46] ++ itoa ((a / 256) mod 256) ++ [46] ++ itoa (a mod 256).

(* the loop over parts: numbers are collected, NonDecimalPart is recorded per part *)
Fixpoint ipv4_numbers (c : cfg) (u : url) (parts : list str) (acc : list N) : res (list N) :=
  match parts with
  | [] => Ok u (rev acc)
  | p :: rest =>
      match parseIPv4Number c u p with
      | (u1, NumErr _) => herr c u1 IPv4NonNumericPart true (fun u2 => ipv4_numbers c u2 rest (0 :: acc))
      | (u1, NumOk n ve) =>
          if ve then herr c u1 IPv4NonDecimalPart false (fun u2 => ipv4_numbers c u2 rest (n :: acc))
          else ipv4_numbers c u1 rest (n :: acc)
      end
  end.

Fixpoint ipv4_range_warn (c : cfg) (u : url) (ns : list N) (k : url -> res str) : res str :=
  match ns with
  | [] => k u
  | n :: rest => if 255 <? n then herr c u IPv4OutOfRangePart false (fun u' => ipv4_range_warn c u' rest k)
                 else ipv4_range_warn c u rest k
  end.

Fixpoint ipv4_sum (ns : list N) (counter : N) : N :=
  match ns with
  | [] => 0
  | n :: rest => n * 256 ^ (3 - counter) + ipv4_sum rest (counter + 1)
  end.

Definition parseIPv4 (c : cfg) (u : url) (input : str) : res str :=
  let parts := split 46 input in
  let after_empty (u : url) (parts : list str) : res str :=
    (if (4 <? len parts)%Z then (fun k => herr c u IPv4TooManyParts true k) else (fun k => k u))
    (fun u =>
      match ipv4_numbers c u parts [] with
      | Er u e => Er u e
      | Ok u numbers =>
          ipv4_range_warn c u numbers (fun u =>
            let init := drop_last numbers in
            if existsb (fun n => 255 <? n) init then herr c u IPv4OutOfRangePart true (fun u => Ok u [])
            else match last_opt numbers with
                 | None => Ok u []      (* unreachable: Split never returns an empty slice *)
                 | Some lastn =>
                     if 256 ^ (5 - N.of_nat (length numbers)) <=? lastn
                     then herr c u IPv4OutOfRangePart true (fun u => Ok u [])
                     else Ok u (IPv4String (lastn + ipv4_sum init 0))
                 end)
      end) in
  match last_opt parts with
  | Some [] =>
      herr c u IPv4EmptyPart false (fun u =>
        after_empty u (if (1 <? len parts)%Z then drop_last parts else parts))
  | _ => after_empty u parts
  end.

(* ---------- IPv6 ---------- *)
Definition zeros8 : list N := [0;0;0;0;0;0;0;0].
Fixpoint set_nth (l : list N) (i : nat) (v : N) : list N :=
  match l, i with
  | [], _ => []
  | _ :: l', O => v :: l'
  | x :: l', S i' => x :: set_nth l' i' v
  end.
Definition get_nth (l : list N) (i : nat) : N := nth i l 0.

(* the dotted-decimal tail: mode None = a digit must follow; Some p = inside a number with value p *)
Fixpoint v4tail (l : list N) (seen : nat) (piece : option N) (pi : nat) (addr : list N)
  : (nat * nat * list N) + etype :=
  let store p :=
    let addr' := set_nth addr pi (get_nth addr pi * 256 + p) in
    let seen' := S seen in
    let pi' := if (Nat.eqb seen' 2 || Nat.eqb seen' 4)%bool then S pi else pi in
    (seen', pi', addr') in
  match l with
  | [] =>
      match piece with
      | None => inr IPv4InIPv6InvalidCodePoint       (* a digit was expected at the end of the input *)
      | Some p => inl (store p)
      end
  | ch :: rest =>
      match piece with
      | None =>
          if isDigit ch then v4tail rest seen (Some (hex_val ch)) pi addr
          else inr IPv4InIPv6InvalidCodePoint
      | Some p =>
          if isDigit ch then
            if p =? 0 then inr IPv4InIPv6InvalidCodePoint
            else let p' := p * 10 + hex_val ch in
                 if 255 <? p' then inr IPv4InIPv6OutOfRangePart else v4tail rest seen (Some p') pi addr
          else
            let '(seen', pi', addr') := store p in
            if (ch =? 46) && (seen' <? 4)%nat then v4tail rest seen' None pi' addr'
            else inr IPv4InIPv6InvalidCodePoint
      end
  end.

(* main loop, one code point at a time. cur = None: at the head of the outer loop;
   cur = Some (value, length, piece start): inside the hex digits of a piece *)
Fixpoint v6loop (l : list N) (pi : nat) (comp : option nat) (addr : list N)
         (cur : option (N * nat * list N)) : (nat * option nat * list N) + etype :=
  match l with
  | [] =>
      match cur with
      | None => inl (pi, comp, addr)
      | Some (v, _, _) => inl (S pi, comp, set_nth addr pi v)
      end
  | ch :: rest =>
      let start := match cur with None => true | Some _ => false end in
      if start && Nat.eqb pi 8 then inr IPv6TooManyPieces
      else if start && (ch =? 58) then
        match comp with
        | Some _ => inr IPv6MultipleCompression
        | None => v6loop rest (S pi) (Some (S pi)) addr None
        end
      else
        let '(v, ln, ps) := match cur with Some x => x | None => (0, O, l) end in
        if (ln <? 4)%nat && isHexDigit ch then v6loop rest pi comp addr (Some (v * 16 + hex_val ch, S ln, ps))
        else if ch =? 46 then
          if Nat.eqb ln 0 then inr IPv4InIPv6InvalidCodePoint
          else if (6 <? pi)%nat then inr IPv4InIPv6TooManyPieces
          else match v4tail ps O None pi addr with
               | inr e => inr e
               | inl (seen, pi', addr') =>
                   if Nat.eqb seen 4 then inl (pi', comp, addr') else inr IPv4InIPv6TooFewParts
               end
        else if ch =? 58 then
          match rest with
          | [] => inr IPv6InvalidCodePoint
          | _ => v6loop rest (S pi) comp (set_nth addr pi v) None
          end
        else inr IPv6InvalidCodePoint
  end.

Fixpoint v6swap (addr : list N) (pi : nat) (comp : nat) (swaps : nat) : list N :=
  match swaps with
  | O => addr
  | S s' =>
      match pi with
      | O => addr
      | S pi' =>
          let j := (comp + swaps - 1)%nat in
          let a := get_nth addr pi in
          let b := get_nth addr j in
          v6swap (set_nth (set_nth addr pi b) j a) pi' comp s'
      end
  end.

Definition ipv6_parse (l : list N) : list N + etype :=
  let r :=
    match l with
    | 58 :: 58 :: rest => v6loop rest 1 (Some 1%nat) zeros8 None
    | 58 :: _ => inr IPv6InvalidCompression
    | _ => v6loop l 0 None zeros8 None
    end in
  match r with
  | inr e => inr e
  | inl (pi, Some comp, addr) => inl (v6swap addr 7 comp (pi - comp))
  | inl (pi, None, addr) => if Nat.eqb pi 8 then inl addr else inr IPv6TooFewPieces
  end.

(* IPv6Addr.String: first longest run of >= 2 zero pieces *)
Fixpoint v6_find (l : list N) (idx : nat) (curIdx : option nat) (curLen : nat) (best : option nat) (bestLen : nat)
  : option nat :=
  match l with
  | [] => if (1 <? curLen)%nat && (bestLen <? curLen)%nat then curIdx else best
  | x :: l' =>
      if x =? 0 then
        v6_find l' (S idx) (match curIdx with None => Some idx | s => s end) (S curLen) best bestLen
      else if (1 <? curLen)%nat && (bestLen <? curLen)%nat
      then v6_find l' (S idx) None O curIdx curLen
      else v6_find l' (S idx) None O best bestLen
  end.

Fixpoint v6_print (l : list N) (idx : nat) (compress : option nat) (ignore0 : bool) : str :=
  match l with
  | [] => []
  | x :: l' =>
      if ignore0 && (x =? 0) then v6_print l' (S idx) compress true
      else if match compress with Some ci => Nat.eqb ci idx | None => false end
      then (if Nat.eqb idx 0 then [58; 58] else [58]) ++ v6_print l' (S idx) compress true
      else fmt_hex x ++ (if Nat.eqb idx 7 then [] else [58]) ++ v6_print l' (S idx) compress false
  end.

Definition IPv6String (addr : list N) : str := v6_print addr 0 (v6_find addr 0 None 0 None 0) false.

Definition parseIPv6 (c : cfg) (u : url) (input : str) : res str :=
  match ipv6_parse (runes input) with
  | inr t => herr c u t true (fun u => Ok u [])
  | inl addr => Ok u ([91] ++ IPv6String addr ++ [93])
  end.

(* ---------- opaque host ---------- *)
Definition invalid_pct (l : list N) : bool :=   (* remainingIsInvalidPercentEncoded on l = '%' :: ... *)
  match l with
  | 37 :: a :: b :: _ => negb (isHexDigit a && isHexDigit b)
  | 37 :: _ => true
  | _ => false
  end.

Fixpoint opaque_loop (c : cfg) (u : url) (input : str) (l : list N) (out : str) : res str :=
  match l with
  | [] => Ok u out
  | ch :: rest =>
      let k1 (u : url) : res str :=
        (if negb (isURLCodePoint ch) && negb (ch =? 37)
         then (fun k => herr c u InvalidURLUnit false k) else (fun k => k u))
        (fun u =>
          (if (ch =? 37) && invalid_pct l
           then (fun k => herr c u InvalidURLUnit false k) else (fun k => k u))
          (fun u => opaque_loop c u input rest (out ++ percentEncodeRune c ch (Some pes_C0)))) in
      if isForbiddenHost ch then
        if c_lax c then Ok u input
        else herr c u HostInvalidCodePoint true k1
      else k1 u
  end.
Definition parseOpaqueHost (c : cfg) (u : url) (input : str) : res str :=
  opaque_loop c u input (runes input) [].

(* ---------- IDNA wrapper ---------- *)
Section Idna.
  (* the raw UTS #46 processing of golang.org/x/net/idna: (result, error?) *)
  Variable idna_raw : str -> str * bool.

  (* containsOnlyASCIIOrMiscAndNoPunycode, on the lower-cased code points *)
  Fixpoint only_ascii_no_puny (l : list N) (p : Z) : bool :=
    match l with
    | [] => true
    | r :: l' =>
        if (128 <=? r) && negb (r =? 8800) && negb (r =? 8814) && negb (r =? 8815) then false
        else if r =? 46 then only_ascii_no_puny l' 0
        else if (p =? 0)%Z && (r =? 120) then only_ascii_no_puny l' 1
        else if (p =? 1)%Z && (r =? 110) then only_ascii_no_puny l' 2
        else if (p =? 2)%Z && (r =? 45) then only_ascii_no_puny l' 3
        else if (p =? 3)%Z && (r =? 45) then false
        else only_ascii_no_puny l' (-1)
    end.
  Definition containsOnlyASCIIOrMiscAndNoPunycode (s : str) : bool :=
    only_ascii_no_puny (map rune_lower (runes s)) 0.

  (* stringToUnicode with the ISO-8859-1 charmap: Some bytes if every code point encodes to a byte > 31 *)
  Definition stringToUnicode (s : str) : option str :=
    let rs := runes s in
    if forallb (fun r => (r <? 256) && (31 <? r)) rs then Some rs else None.

  (* ToASCII(src, beStrict = false): Some a on success, None on error *)
  Definition ToASCII (c : cfg) (src : str) : option str :=
    match src with
    | [] => Some []
    | _ =>
        let src := if c_latin1 c then match stringToUnicode src with Some s => s | None => src end else src in
        let '(a, err) := idna_raw src in
        if err && containsOnlyASCIIOrMiscAndNoPunycode src then Some a
        else if err && negb (c_lax c) then None
        else if is_nil a then None else Some a
    end.

  Fixpoint collapse_dots (s : str) : str :=       (* regexp `\.\.+` -> "." *)
    match s with
    | 46 :: ((46 :: _) as s') => collapse_dots s'
    | x :: s' => x :: collapse_dots s'
    | [] => []
    end.
  Definition hostfun_gsb (h : str) : str := collapse_dots (trim_set [46] h).
  Definition hostfun_sem (h : str) : str :=
    match h with
    | [] => []
    | _ => let h' := hostfun_gsb h in match h' with [] => [48;46;48;46;48;46;48] | _ => h' end
    end.
  Definition apply_hostfun (f : hostfun) (h : str) : str :=
    match f with HF_none => h | HF_gsb => hostfun_gsb h | HF_sem => hostfun_sem h | HF_fun g => g h end.

  Definition parseHost (c : cfg) (u : url) (input : str) (isNotSpecial : bool) : res str :=
    let input := apply_hostfun (c_pre c) input in
    match input with
    | [] => Ok u []
    | 91 :: _ =>
        (if negb (has_suffix [93] input) then (fun k => herr c u IPv6Unclosed true k) else (fun k => k u))
        (fun u => parseIPv6 c u (drop_last (tl input)))
    | _ =>
      if isNotSpecial then parseOpaqueHost c u input
      else
        let domain := DecodePercentEncoded c input in
        let k_valid (u : url) : res str :=
          match ToASCII c domain with
          | None =>
              if c_lax c then Ok u domain
              else herr c u DomainToASCII true (fun u => Ok u [])
          | Some asciiDomain =>
              let forbidden := existsb isForbiddenDomain (runes asciiDomain) in
              let k_clean (u : url) : res str :=
                match endsInANumber c u asciiDomain with
                | (u, true) => parseIPv4 c u asciiDomain
                | (u, false) => Ok u (apply_hostfun (c_post c) asciiDomain)
                end in
              if forbidden then
                if c_lax c then Ok u (PercentEncodeString c asciiDomain pes_Host)
                else herr c u DomainInvalidCodePoint true k_clean
              else k_clean u
          end in
        if negb (valid_utf8 domain) then
          if c_lax c then Ok u (percentEncodeBytes input pes_Host)
          else herr c u DomainToASCII true k_valid
        else k_valid u
    end.
End Idna.
