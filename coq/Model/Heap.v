(* L2: an object-graph model of url/url.go, url/searchparams.go, url/path.go.

   L1 (Model/Url.v, Model/Api.v) has value semantics: a `url` record carries its path and its
   search-parameter list inside the record, so "resolving never modifies the base" or "a clone shares
   nothing with the original" cannot even be stated there.  L2 mirrors the POINTER STRUCTURE of the Go
   code:

     type Url struct { ...; path *path; searchParams *SearchParams; ... }        -> urlobj (o_path : loc, o_sp : option loc)
     type path struct { p []string; opaque bool }                                 -> pathobj
     type SearchParams struct { url *Url; params []*NameValuePair }               -> spobj (s_owner : option loc)

   and every public operation is the L1 string computation plus the explicit allocate / copy-pointer /
   write-through steps of the Go code.  Proofs/HeapProofs.v shows that under the separation invariant
   `Sep` L2 refines L1 and that every operation has a footprint of at most the three objects of the
   handle it is applied to.

   Modelling decisions (see also the list at the end of Proofs/HeapProofs.v):
   * typed heap: one store per Go type (a *path never aliases a *Url);
   * `host, port, query, fragment *string` are VALUES (option str).  The Go code replaces these
     pointers, it never writes through a shared one: the only write-through is parser.go:670
     `*url.query = buffer.String()`, reached only without state override, and every transition into
     StateQuery without override is immediately preceded by `url.query = new(string)` (parser.go:279,
     478, 563, 616, 642), so the cell written is always one allocated by the same call;
   * `params []*NameValuePair` is a value list: pairs are deep-copied by SearchParams.Clone and never
     handed out except to the callback of Iterate, modelled as map-then-update;
   * the `parser *parser` field is the section variable `c` (one parser for all handles). *)
From Verif Require Import Lib.Base Lib.Utf8 Lib.GoStr Model.Cfg Gen.Tables Model.Sets Model.Percent Model.Url Model.Host Model.Machine Model.Api Model.Canon Model.Obs.

Definition loc := nat.

Record urlobj := {
  o_input : str; o_scheme : str; o_username : str; o_password : str;
  o_host : option str; o_port : option str; o_decodedPort : N;
  o_path : loc;                    (* path *path, never nil after construction *)
  o_query : option str; o_fragment : option str;
  o_verrs : list verr;
  o_sp : option loc                (* searchParams *SearchParams, nil until first use *)
}.
Record pathobj := { p_segs : list str; p_opaque : bool }.
Record spobj := { s_owner : option loc (* url *Url *); s_params : list (str * str) }.

(* a store: total map with an allocation pointer; `None` = never allocated or collected *)
Record store (A : Type) := { cell : loc -> option A; next : loc }.
Arguments cell {A} _ _.
Arguments next {A} _.
Definition rd {A} (s : store A) (l : loc) : option A := cell s l.
Definition upd {A} (s : store A) (l : loc) (v : option A) : store A :=
  {| cell := fun l' => if Nat.eqb l' l then v else cell s l'; next := next s |}.
Definition alloc {A} (s : store A) (v : A) : store A :=
  {| cell := fun l' => if Nat.eqb l' (next s) then Some v else cell s l'; next := Datatypes.S (next s) |}.
Definition empty_store (A : Type) : store A := {| cell := fun _ => None; next := O |}.

Record heap := { hu : store urlobj; hp : store pathobj; hs : store spobj }.
Definition empty_heap : heap := {| hu := empty_store _; hp := empty_store _; hs := empty_store _ |}.

(* ---------- abstraction ---------- *)
Definition val_of (o : urlobj) (p : pathobj) (sp : option (list (str * str))) : url :=
  {| u_input := o_input o; u_scheme := o_scheme o; u_username := o_username o; u_password := o_password o;
     u_host := o_host o; u_port := o_port o; u_decodedPort := o_decodedPort o;
     u_path := p_segs p; u_opaque := p_opaque p; u_query := o_query o; u_fragment := o_fragment o;
     u_verrs := o_verrs o; u_sp := sp |}.

Definition obj_of (u : url) (pl : loc) (sl : option loc) : urlobj :=
  {| o_input := u_input u; o_scheme := u_scheme u; o_username := u_username u; o_password := u_password u;
     o_host := u_host u; o_port := u_port u; o_decodedPort := u_decodedPort u; o_path := pl;
     o_query := u_query u; o_fragment := u_fragment u; o_verrs := u_verrs u; o_sp := sl |}.

Definition path_of (u : url) : pathobj := {| p_segs := u_path u; p_opaque := u_opaque u |}.

(* field updates of a Url object *)
Definition with_ptrs (o : urlobj) (pl : loc) (sl : option loc) : urlobj :=
  {| o_input := o_input o; o_scheme := o_scheme o; o_username := o_username o; o_password := o_password o;
     o_host := o_host o; o_port := o_port o; o_decodedPort := o_decodedPort o; o_path := pl;
     o_query := o_query o; o_fragment := o_fragment o; o_verrs := o_verrs o; o_sp := sl |}.
Definition with_query (o : urlobj) (q : option str) : urlobj :=
  {| o_input := o_input o; o_scheme := o_scheme o; o_username := o_username o; o_password := o_password o;
     o_host := o_host o; o_port := o_port o; o_decodedPort := o_decodedPort o; o_path := o_path o;
     o_query := q; o_fragment := o_fragment o; o_verrs := o_verrs o; o_sp := o_sp o |}.
Definition with_verrs (o : urlobj) (v : list verr) : urlobj :=
  {| o_input := o_input o; o_scheme := o_scheme o; o_username := o_username o; o_password := o_password o;
     o_host := o_host o; o_port := o_port o; o_decodedPort := o_decodedPort o; o_path := o_path o;
     o_query := o_query o; o_fragment := o_fragment o; o_verrs := v; o_sp := o_sp o |}.

(* the L1 value of a Url handle: the path is read through the path pointer, the parameter list
   through the searchParams pointer *)
Definition abs (h : heap) (a : loc) : option url :=
  match rd (hu h) a with
  | None => None
  | Some o =>
      match rd (hp h) (o_path o) with
      | None => None
      | Some p =>
          match o_sp o with
          | None => Some (val_of o p None)
          | Some sl =>
              match rd (hs h) sl with
              | None => None
              | Some s => Some (val_of o p (Some (s_params s)))
              end
          end
      end
  end.

(* u.searchParams *)
Definition sp_of (h : heap) (a : loc) : option loc :=
  match rd (hu h) a with Some o => o_sp o | None => None end.

(* ---------- the separation invariant ---------- *)
Record Sep (h : heap) : Prop := {
  (* well-formed stores: nothing lives beyond the allocation pointer *)
  wf_u : forall l, (next (hu h) <= l)%nat -> rd (hu h) l = None;
  wf_p : forall l, (next (hp h) <= l)%nat -> rd (hp h) l = None;
  wf_s : forall l, (next (hs h) <= l)%nat -> rd (hs h) l = None;
  (* every live Url points to a live Path *)
  sep_path : forall a o, rd (hu h) a = Some o -> rd (hp h) (o_path o) <> None;
  (* distinct live Urls have distinct Path objects *)
  sep_inj : forall a b oa ob, rd (hu h) a = Some oa -> rd (hu h) b = Some ob -> o_path oa = o_path ob -> a = b;
  (* the SearchParams object a Url points to is live and owned by that Url ... *)
  sep_sp : forall a o sl, rd (hu h) a = Some o -> o_sp o = Some sl ->
           exists s, rd (hs h) sl = Some s /\ s_owner s = Some a;
  (* ... and a live SearchParams object with an owner is the one its owner points to *)
  sep_owner : forall sl s a, rd (hs h) sl = Some s -> s_owner s = Some a ->
              exists o, rd (hu h) a = Some o /\ o_sp o = Some sl
}.

(* ---------- operations ---------- *)
Section Ops.
  Variable idna_raw : str -> str * bool.
  Variable c : cfg.

  (* result of an operation that may return a fresh handle *)
  Inductive lres :=
  | LOk (h : heap) (r : loc)      (* new heap, the handle returned *)
  | LErr (h : heap) (e : verr)    (* (nil, err): the heap is as before, temporaries are garbage *)
  | LNil (h : heap)               (* (nil, nil) *)
  | LPanic                        (* run-time panic, out of fuel, or an invalid handle *)
  .

  (* `&Url{..., path: &path{...}}` holding the L1 value u: a fresh Path, a fresh Url, and (never the
     case for a parse result, u_sp is None there) a fresh SearchParams *)
  Definition new_url (h : heap) (u : url) : heap * loc :=
    let r := next (hu h) in
    let pl := next (hp h) in
    match u_sp u with
    | None => ({| hu := alloc (hu h) (obj_of u pl None); hp := alloc (hp h) (path_of u); hs := hs h |}, r)
    | Some l =>
        ({| hu := alloc (hu h) (obj_of u pl (Some (next (hs h)))); hp := alloc (hp h) (path_of u);
            hs := alloc (hs h) {| s_owner := Some r; s_params := l |} |}, r)
    end.

  (* parser.Parse(s): BasicParser(s, nil, nil, NoState) builds the result in a fresh Url + Path *)
  Definition h_parse (h : heap) (s : str) : lres :=
    match Parse idna_raw c s with
    | PUrl u => let '(h', r) := new_url h u in LOk h' r
    | PErr e => LErr h e
    | PNilNil => LNil h
    | PPanic | PFuel => LPanic
    end.

  (* Url.Clone (url.go:329-351): fresh Url; `path: u.path.clone()` a fresh Path with the same contents;
     validationErrors not copied; searchParams cloned only if present, and re-pointed to the clone *)
  Definition h_clone (h : heap) (a : loc) : option (heap * loc) :=
    match rd (hu h) a with
    | None => None
    | Some o =>
        match rd (hp h) (o_path o) with
        | None => None
        | Some p =>
            let cl := next (hu h) in
            let pl := next (hp h) in
            let mk sl := with_ptrs (with_verrs o []) pl sl in
            match o_sp o with
            | None => Some ({| hu := alloc (hu h) (mk None); hp := alloc (hp h) p; hs := hs h |}, cl)
            | Some sl =>
                match rd (hs h) sl with
                | None => None
                | Some s =>
                    Some ({| hu := alloc (hu h) (mk (Some (next (hs h)))); hp := alloc (hp h) p;
                             hs := alloc (hs h) {| s_owner := Some cl; s_params := s_params s |} |}, cl)
                end
            end
        end
    end.

  (* u.Parse(ref) = BasicParser(ref, u, nil, NoState) (parser.go:128-150):
       url  = &Url{inputUrl: ref, path: &path{}}      -- fresh Url, fresh Path
       base = baseUrl.Clone()                          -- fresh Url, fresh Path (, fresh SearchParams)
     and in the NoScheme / Relative / File states `url.path = base.path` (parser.go:232, 276, 475)
     COPIES THE POINTER to the clone's Path, which is then mutated in place (shortenPath, addSegment).
     Whether that happens depends on the input; `share` says whether it did.  Either way the clone,
     its SearchParams and whichever Path the result does not use are unreachable when BasicParser
     returns; they are collected here (their cells become None). *)
  Definition h_resolve (share : bool) (h : heap) (b : loc) (ref : str) : lres :=
    match abs h b, h_clone h b with
    | Some vb, Some (h1, b') =>
        match UrlParse idna_raw c vb ref with
        | PUrl u =>
            let '(h2, r) := new_url h1 u in
            match rd (hu h1) b', rd (hu h2) r with
            | Some ob', Some or =>
                (* drop the clone and its SearchParams *)
                let hu3 := upd (hu h2) b' None in
                let hs3 := match o_sp ob' with Some sl => upd (hs h2) sl None | None => hs h2 end in
                if share then
                  (* url.path = base.path: the result uses the clone's Path; its own is garbage *)
                  LOk {| hu := upd hu3 r (Some (obj_of u (o_path ob') (o_sp or)));
                         hp := upd (upd (hp h2) (o_path ob') (Some (path_of u))) (o_path or) None;
                         hs := hs3 |} r
                else
                  LOk {| hu := hu3; hp := upd (hp h2) (o_path ob') None; hs := hs3 |} r
            | _, _ => LPanic
            end
        | PErr e => LErr h e
        | PNilNil => LNil h
        | PPanic | PFuel => LPanic
        end
    | _, _ => LPanic
    end.

  (* write the L1 value u' back into THE SAME objects the handle a points to: the scalar fields of the
     Url object, the Path object in place through u.path, the parameter list in place through
     u.searchParams (keeping the owner field of that object as it is); a SearchParams object is
     allocated, owned by a, when the value has parameters and the Url has no object yet
     (newUrlSearchParams).  The last case (the value lost its parameters) never happens for an L1
     operation (HeapProofs.setter_keeps_sp); the object is then unlinked and collected. *)
  Definition commit (h : heap) (a : loc) (u' : url) : heap :=
    match rd (hu h) a with
    | None => h
    | Some o =>
        let hp' := upd (hp h) (o_path o) (Some (path_of u')) in
        match u_sp u', o_sp o with
        | Some l, Some sl =>
            {| hu := upd (hu h) a (Some (obj_of u' (o_path o) (Some sl)));
               hp := hp';
               hs := match rd (hs h) sl with
                     | Some s => upd (hs h) sl (Some {| s_owner := s_owner s; s_params := l |})
                     | None => hs h
                     end |}
        | Some l, None =>
            {| hu := upd (hu h) a (Some (obj_of u' (o_path o) (Some (next (hs h)))));
               hp := hp';
               hs := alloc (hs h) {| s_owner := Some a; s_params := l |} |}
        | None, Some sl =>
            {| hu := upd (hu h) a (Some (obj_of u' (o_path o) None)); hp := hp'; hs := upd (hs h) sl None |}
        | None, None =>
            {| hu := upd (hu h) a (Some (obj_of u' (o_path o) None)); hp := hp'; hs := hs h |}
        end
    end.

  (* the nine setters (0 = protocol ... 8 = hash): BasicParser(v, nil, u, state) mutates u, u.path
     (path.init, addSegment, shortenPath, setOpaque, stripTrailingSpacesIfOpaque: all in place) and,
     for SetSearch, re-initialises the EXISTING SearchParams object (searchParams.init / params[:0]).
     None = the call panicked (the object is then in a state L1 does not describe). *)
  Definition h_set (h : heap) (a : loc) (w : N) (v : str) : option heap :=
    match abs h a with
    | None => None
    | Some u => match setter idna_raw c w u v with
                | Some u' => Some (commit h a u')
                | None => None
                end
    end.

  (* u.SearchParams() (url.go:235-240, 291-297), at pointer level: no write at all when the object
     exists; otherwise allocate it with url := u, init from the query, store the pointer in u *)
  Definition h_searchparams (h : heap) (a : loc) : option (heap * loc) :=
    match rd (hu h) a with
    | None => None
    | Some o =>
        match o_sp o with
        | Some sl => Some (h, sl)
        | None =>
            let sl := next (hs h) in
            let l := match o_query o with Some q => sp_init c q | None => [] end in
            Some ({| hu := upd (hu h) a (Some (with_ptrs o (o_path o) (Some sl)));
                     hp := hp h;
                     hs := alloc (hs h) {| s_owner := Some a; s_params := l |} |}, sl)
        end
    end.

  (* a SearchParams mutator applied THROUGH A SearchParams HANDLE sl (searchparams.go: Append, Delete,
     Set, Sort, SortAbsolute, Iterate), at pointer level: s.params = f(s.params); s.update(), which
     writes s.url.query.  None = nil dereference. *)
  Definition h_sp_mutate (f : list (str * str) -> list (str * str)) (h : heap) (sl : loc) : option heap :=
    match rd (hs h) sl with
    | None => None
    | Some s =>
        let l := f (s_params s) in
        let hs' := upd (hs h) sl (Some {| s_owner := s_owner s; s_params := l |}) in
        match s_owner s with
        | None => Some {| hu := hu h; hp := hp h; hs := hs' |}        (* update(): if s.url == nil return *)
        | Some a =>
            match rd (hu h) a with
            | None => None
            | Some o =>
                let q := sp_string c l in
                if (is_nil q && is_some (o_query o)) || negb (is_nil q) then
                  Some {| hu := upd (hu h) a (Some (with_query o (Some q))); hp := hp h; hs := hs' |}
                else Some {| hu := hu h; hp := hp h; hs := hs' |}
            end
        end
    end.

  (* u.SearchParams().<mutator>() *)
  Definition h_sp_via (f : list (str * str) -> list (str * str)) (h : heap) (a : loc) : option heap :=
    match h_searchparams h a with
    | Some (h1, sl) => h_sp_mutate f h1 sl
    | None => None
    end.

  (* a.SetSearchParams(b.SearchParams()) as repaired by 44c5d62 (url.go:245-255), at pointer level:
       b.SearchParams()            -- the argument: b's object slb, allocated if b had none (as HTouch b)
       sp := a.SearchParams()      -- a's OWN object sla, allocated if a had none (as HTouch a)
       if arg != sp { sp.params = arg.Clone().params }     -- the pairs are values here (see the head of
                                      this file), so the deep copy is the list itself; when a = b the
                                      two objects are the same one and its list stays
       sp.update()                 -- the write-back of every SearchParams mutator: a's query from a's list
     No pointer is stored: a keeps its object, slb keeps its owner b.  None = an invalid handle. *)
  Definition h_adopt (h : heap) (a b : loc) : option heap :=
    match h_searchparams h b with
    | Some (h1, slb) =>
        match h_searchparams h1 a with
        | Some (h2, sla) =>
            match rd (hs h2) slb with
            | Some sb => h_sp_mutate (fun _ => s_params sb) h2 sla
            | None => None
            end
        | None => None
        end
    | None => None
    end.

  (* ---------- operation sequences over any number of handles ---------- *)
  Inductive spmut :=
  | MAppend (n v : str) | MDelete (n : str) | MSet (n v : str) | MSort | MSortAbs
  | MIterate (g : str * str -> str * str).      (* Iterate(func(p){ p.Name, p.Value = g(p) }) *)
  Definition spmut_fun (m : spmut) (l : list (str * str)) : list (str * str) :=
    match m with
    | MAppend n v => sp_append l n v
    | MDelete n => sp_delete l n
    | MSet n v => sp_set l n v
    | MSort => sp_sort l
    | MSortAbs => sp_sort_abs l
    | MIterate g => map g l
    end.

  Inductive hop :=
  | HParse (s : str)
  | HResolve (share : bool) (b : loc) (ref : str)
  | HClone (a : loc)
  | HSet (a : loc) (w : N) (v : str)
  | HTouch (a : loc)                        (* u.SearchParams() *)
  | HSp (a : loc) (m : spmut)               (* u.SearchParams().m() *)
  | HSpVia (sl : loc) (m : spmut)           (* p.m() through a SearchParams handle obtained earlier *)
  | HAdopt (a b : loc).                     (* a.SetSearchParams(b.SearchParams()) *)

  (* None = the program stopped (panic / invalid handle).  Failed parses leave the heap as it is. *)
  Definition h_step (h : heap) (o : hop) : option heap :=
    match o with
    | HParse s => match h_parse h s with LOk h' _ => Some h' | LErr h' _ | LNil h' => Some h' | LPanic => None end
    | HResolve share b ref =>
        match h_resolve share h b ref with LOk h' _ => Some h' | LErr h' _ | LNil h' => Some h' | LPanic => None end
    | HClone a => match h_clone h a with Some (h', _) => Some h' | None => None end
    | HSet a w v => h_set h a w v
    | HTouch a => match h_searchparams h a with Some (h', _) => Some h' | None => None end
    | HSp a m => h_sp_via (spmut_fun m) h a
    | HSpVia sl m => h_sp_mutate (spmut_fun m) h sl
    | HAdopt a b => h_adopt h a b
    end.

  Fixpoint h_run (h : heap) (ops : list hop) : option heap :=
    match ops with
    | [] => Some h
    | o :: rest => match h_step h o with Some h' => h_run h' rest | None => None end
    end.

  (* ---------- the L1 counterpart: the same operations on a finite map handle -> url ---------- *)
  (* This is Obs.hstep generalised from two slots to any number of handles.  The map is total with
     None outside its domain; the counter mirrors the allocation pointer of the Url store. *)
  Inductive l1op :=
  | L1Parse (s : str) | L1Resolve (b : loc) (ref : str) | L1Clone (a : loc) | L1Set (a : loc) (w : N) (v : str)
  | L1Touch (a : loc) | L1Sp (a : loc) (m : spmut) | L1Adopt (a b : loc) | L1Nop | L1Stop.

  (* an L2 operation as an L1 operation; the heap is consulted only to find the owner of a
     SearchParams handle (which never changes, HeapProofs.step_handles) *)
  Definition l1_of (h : heap) (o : hop) : l1op :=
    match o with
    | HParse s => L1Parse s
    | HResolve _ b ref => L1Resolve b ref
    | HClone a => L1Clone a
    | HSet a w v => L1Set a w v
    | HTouch a => L1Touch a
    | HSp a m => L1Sp a m
    | HSpVia sl m =>
        match rd (hs h) sl with
        | Some s => match s_owner s with Some a => L1Sp a m | None => L1Nop end
        | None => L1Stop
        end
    | HAdopt a b => L1Adopt a b
    end.

  Definition l1state := ((loc -> option url) * loc)%type.
  Definition put (m : loc -> option url) (a : loc) (v : option url) : loc -> option url :=
    fun b => if Nat.eqb b a then v else m b.

  Definition l1_step (st : l1state) (o : l1op) : option l1state :=
    let '(m, n) := st in
    match o with
    | L1Parse s =>
        match Parse idna_raw c s with
        | PUrl u => Some (put m n (Some u), Datatypes.S n)
        | PErr _ | PNilNil => Some st
        | PPanic | PFuel => None
        end
    | L1Resolve b ref =>
        match m b with
        | Some vb =>
            match UrlParse idna_raw c vb ref with
            | PUrl u => Some (put m (Datatypes.S n) (Some u), Datatypes.S (Datatypes.S n))
            | PErr _ | PNilNil => Some st
            | PPanic | PFuel => None
            end
        | None => None
        end
    | L1Clone a => match m a with Some u => Some (put m n (Some (Clone u)), Datatypes.S n) | None => None end
    | L1Set a w v =>
        match m a with
        | Some u => match setter idna_raw c w u v with Some u' => Some (put m a (Some u'), n) | None => None end
        | None => None
        end
    | L1Touch a => match m a with Some u => Some (put m a (Some (fst (ensure_sp c u))), n) | None => None end
    | L1Sp a mu =>
        match m a with
        | Some u => let '(u1, l) := ensure_sp c u in Some (put m a (Some (sp_update c u1 (spmut_fun mu l))), n)
        | None => None
        end
    | L1Adopt a b =>
        (* Obs.hstep (OSpAdopt slot) with a = slot, b = the other slot, for any two handles (also a = b:
           the list adopted is then the URL's own).  As everywhere in l1_step an invalid handle stops
           the run, where the two-slot histories of Obs skip the operation. *)
        match m b with
        | Some v =>
            let '(v', l) := ensure_sp c v in                  (* the argument: b.SearchParams() *)
            let m1 := put m b (Some v') in
            match m1 a with
            | Some u => Some (put m1 a (Some (sp_update c (fst (ensure_sp c u)) l)), n)
            | None => None
            end
        | None => None
        end
    | L1Nop => Some st
    | L1Stop => None
    end.

  (* the L1 run that accompanies an L2 run *)
  Fixpoint l1_run (h : heap) (st : l1state) (ops : list hop) : option l1state :=
    match ops with
    | [] => Some st
    | o :: rest =>
        match h_step h o, l1_step st (l1_of h o) with
        | Some h', Some st' => l1_run h' st' rest
        | _, _ => None
        end
    end.

  (* without HSpVia the L1 run does not look at the heap at all *)
  Definition no_via (o : hop) : bool := match o with HSpVia _ _ => false | _ => true end.
  Fixpoint l1_run0 (st : l1state) (ops : list hop) : option l1state :=
    match ops with
    | [] => Some st
    | o :: rest => match l1_step st (l1_of empty_heap o) with Some st' => l1_run0 st' rest | None => None end
    end.

  (* the handle an operation is applied to or returns: the only one whose value may change *)
  Definition target (h : heap) (o : hop) : option loc :=
    match o with
    | HParse _ | HClone _ => Some (next (hu h))
    | HResolve _ _ _ => Some (Datatypes.S (next (hu h)))
    | HSet a _ _ | HTouch a | HSp a _ | HAdopt a _ => Some a
    | HSpVia sl _ => match rd (hs h) sl with Some s => s_owner s | None => None end
    end.

  (* the handle an operation takes its ARGUMENT from: a.SetSearchParams(b.SearchParams()) evaluates
     b.SearchParams(), which creates b's SearchParams object if b has none yet (exactly HTouch b) and
     changes nothing else of b *)
  Definition arg_of (o : hop) : option loc :=
    match o with HAdopt _ b => Some b | _ => None end.

  (* ---------- the buggy variants (for HeapProofs: what Sep excludes) ---------- *)

  (* D9 (fixed by 3a4c9c8): SearchParams.Clone copies the back-pointer and Url.Clone did not re-point
     it: the clone's SearchParams object is fresh but OWNED BY THE ORIGINAL *)
  Definition h_clone_D9 (h : heap) (a : loc) : option (heap * loc) :=
    match h_clone h a with
    | Some (h', cl) =>
        match sp_of h' cl with
        | Some sl => match rd (hs h') sl with
                     | Some s => Some ({| hu := hu h'; hp := hp h';
                                          hs := upd (hs h') sl (Some {| s_owner := Some a; s_params := s_params s |}) |}, cl)
                     | None => None
                     end
        | None => Some (h', cl)
        end
    | None => None
    end.

  (* the clone copies the searchParams POINTER (a shallow copy) *)
  Definition h_clone_shared_sp (h : heap) (a : loc) : option (heap * loc) :=
    match h_clone h a with
    | Some (h', cl) =>
        match rd (hu h') cl with
        | Some oc => Some ({| hu := upd (hu h') cl (Some (with_ptrs oc (o_path oc) (sp_of h a)));
                              hp := hp h'; hs := hs h' |}, cl)
        | None => None
        end
    | None => None
    end.

  (* the clone copies the path POINTER (`path: u.path` instead of `u.path.clone()`) *)
  Definition h_clone_shared_path (h : heap) (a : loc) : option (heap * loc) :=
    match h_clone h a, rd (hu h) a with
    | Some (h', cl), Some o =>
        match rd (hu h') cl with
        | Some oc => Some ({| hu := upd (hu h') cl (Some (with_ptrs oc (o_path o) (o_sp oc)));
                              hp := hp h'; hs := hs h' |}, cl)
        | None => None
        end
    | _, _ => None
    end.

  (* D10 (fixed by 88bcff0): Clone called u.SearchParams(), creating the object IN THE ORIGINAL *)
  Definition h_clone_D10 (h : heap) (a : loc) : option (heap * loc) :=
    match h_searchparams h a with
    | Some (h1, _) => h_clone h1 a
    | None => None
    end.

  (* BasicParser without the entry clone of the base: `url.path = base.path` then shares the BASE's Path *)
  Definition h_resolve_noclone (h : heap) (b : loc) (ref : str) : lres :=
    match abs h b, rd (hu h) b with
    | Some vb, Some ob =>
        match UrlParse idna_raw c vb ref with
        | PUrl u =>
            LOk {| hu := alloc (hu h) (obj_of u (o_path ob) None);
                   hp := upd (hp h) (o_path ob) (Some (path_of u)); hs := hs h |} (next (hu h))
        | PErr e => LErr h e
        | PNilNil => LNil h
        | PPanic | PFuel => LPanic
        end
    | _, _ => LPanic
    end.

  (* a PUBLIC method that leaves the invariant (outside the verified API subset):
     SearchParams.Clone() returns a copy whose url field still points to the owner ... *)
  Definition h_sp_clone (h : heap) (sl : loc) : option (heap * loc) :=
    match rd (hs h) sl with
    | Some s => Some ({| hu := hu h; hp := hp h; hs := alloc (hs h) {| s_owner := s_owner s; s_params := s_params s |} |}, next (hs h))
    | None => None
    end.

  (* ... and, until 44c5d62, u.SetSearchParams(p) stored p without setting p.url = u:
       func (u *Url) SetSearchParams(sp *SearchParams) { u.searchParams = sp; u.searchParams.update() }
     update() then writes p.url.query - the query of p's OWNER, not u's *)
  Definition h_set_searchparams (h : heap) (a sl : loc) : option heap :=
    match rd (hu h) a with
    | Some o =>
        h_sp_mutate (fun l => l)
          {| hu := upd (hu h) a (Some (with_ptrs o (o_path o) (Some sl))); hp := hp h; hs := hs h |} sl
    | None => None
    end.

  (* D26 (fixed by 44c5d62): a.SetSearchParams(b.SearchParams()) AS FOUND.  The argument is b's live
     object slb (materialised as HTouch b does); a.searchParams := slb - no copy, the owner field of slb
     still names b - and the write-back goes through that owner: b's query is rewritten from the list,
     a's query is not touched.  The repaired operation is h_adopt. *)
  Definition h_adopt_D26 (h : heap) (a b : loc) : option heap :=
    match h_searchparams h b with
    | Some (h1, slb) => h_set_searchparams h1 a slb
    | None => None
    end.
End Ops.

(* ---------- a finer model of SearchParams.params: the slice holds POINTERS to pairs ---------- *)
(* Above, spobj.s_params is a VALUE list.  In Go it is `[]*NameValuePair`: Set writes `nvp.Value = value`
   and the callback of Iterate writes `pair.Name`, `pair.Value` IN PLACE through these pointers, and
   SearchParams.Clone allocates fresh pairs.  This section models the slice as a list of locations into
   a store of pairs, with the mutators at pointer level; HeapProofs (Section PairProofs) shows that as
   long as no pair is reachable from two slices (and from one slice twice) each pointer-level mutator is
   the value-level function used above, that no other slice changes, and that the deep copy of Clone,
   init and Append keep it so - which is what licenses the value list in spobj.  The shallow copy
   `copy(sp.params, s.params)` (a seeded defect) is the buggy variant p_clone_shallow. *)
Definition pair_t := (str * str)%type.
Definition pstore := store pair_t.
Definition plist := list loc.

(* *k (a dangling pointer reads as the zero pair; never the case under pwf) *)
Definition pget (s : pstore) (k : loc) : pair_t := match rd s k with Some p => p | None => ([], []) end.
(* the value list a slice stands for *)
Definition pvals (s : pstore) (l : plist) : list pair_t := map (pget s) l.

(* init / Clone: one fresh pair per value *)
Fixpoint p_new (s : pstore) (vals : list pair_t) : pstore * plist :=
  match vals with
  | [] => (s, [])
  | v :: rest => let '(s', l) := p_new (alloc s v) rest in (s', next s :: l)
  end.
Definition p_clone (s : pstore) (l : plist) : pstore * plist := p_new s (pvals s l).
Definition p_clone_shallow (s : pstore) (l : plist) : pstore * plist := (s, l).

Definition p_append (s : pstore) (l : plist) (n v : str) : pstore * plist := (alloc s (n, v), l ++ [next s]).
Definition p_delete (s : pstore) (l : plist) (n : str) : pstore * plist :=
  (s, filter (fun k => negb (str_eqb (fst (pget s k)) n)) l).
Fixpoint p_set_aux (s : pstore) (l : plist) (n v : str) (isSet : bool) : pstore * plist * bool :=
  match l with
  | [] => (s, [], isSet)
  | k :: l' =>
      if str_eqb (fst (pget s k)) n then
        if isSet then p_set_aux s l' n v true                          (* s.params[i] = nil; continue *)
        else let '(s2, r, b) := p_set_aux (upd s k (Some (fst (pget s k), v))) l' n v true in   (* nvp.Value = value *)
             (s2, k :: r, b)
      else let '(s2, r, b) := p_set_aux s l' n v isSet in (s2, k :: r, b)
  end.
Definition p_set (s : pstore) (l : plist) (n v : str) : pstore * plist :=
  let '(s1, r, isSet) := p_set_aux s l n v false in
  if isSet then (s1, r) else (alloc s1 (n, v), r ++ [next s1]).
Definition p_sort (s : pstore) (l : plist) : pstore * plist :=
  (s, sort_stable (fun a b => str_ltb (fst (pget s a)) (fst (pget s b))) l).
Definition p_sort_abs (s : pstore) (l : plist) : pstore * plist :=
  (s, sort_stable (fun a b => str_ltb (fst (pget s a) ++ snd (pget s a)) (fst (pget s b) ++ snd (pget s b))) l).
Definition p_iterate (g : pair_t -> pair_t) (s : pstore) (l : plist) : pstore * plist :=
  (fold_left (fun s k => upd s k (Some (g (pget s k)))) l s, l).

Definition p_mutate (m : spmut) (s : pstore) (l : plist) : pstore * plist :=
  match m with
  | MAppend n v => p_append s l n v
  | MDelete n => p_delete s l n
  | MSet n v => p_set s l n v
  | MSort => p_sort s l
  | MSortAbs => p_sort_abs s l
  | MIterate g => p_iterate g s l
  end.

(* a slice is well-formed: its pointers are live and pairwise distinct *)
Definition pwf (s : pstore) (l : plist) : Prop := NoDup l /\ forall k, In k l -> rd s k <> None.
Definition swf (s : pstore) : Prop := forall k, (next s <= k)%nat -> rd s k = None.
Definition pdisjoint (l1 l2 : plist) : Prop := forall k, In k l1 -> ~ In k l2.
