(* Executable forms of the properties that are statements about one URL value, written against the
   observable getter values only (the list produced by [obs_url]).  The same functions are
   (a) what the theorems in Properties/ are stated about and (b) extracted and evaluated on the
   getter values the implementation returns. Each returns the list of clause numbers that fail. *)
From Verif Require Import Lib.Base Lib.Utf8 Lib.GoStr Model.Cfg Gen.Tables Model.Sets Model.Percent Model.Url.

Definition fld (l : list str) (i : nat) : str := nth i l [].
Definition flag (l : list str) (i : nat) : bool := str_eqb (fld l i) [49].

(* field indices of obs_url *)
Definition f_href := 0%nat.   Definition f_href_nf := 1%nat. Definition f_protocol := 2%nat.
Definition f_username := 3%nat. Definition f_password := 4%nat. Definition f_host := 5%nat.
Definition f_hostname := 6%nat. Definition f_port := 7%nat. Definition f_pathname := 8%nat.
Definition f_search := 9%nat. Definition f_hash := 10%nat. Definition f_scheme := 11%nat.
Definition f_query := 12%nat. Definition f_fragment := 13%nat. Definition f_dport := 14%nat.
Definition f_isv4 := 15%nat. Definition f_isv6 := 16%nat. Definition f_opaque := 17%nat.
Definition f_special := 18%nat.

Definition scheme_char (c : N) : bool := is_lower c || is_digit c || (c =? 43) || (c =? 45) || (c =? 46).
Definition scheme_ok (s : str) : bool :=
  match s with a :: r => is_lower a && forallb scheme_char r | [] => false end.

Definition canonical_decimal (s : str) : bool :=
  negb (is_nil s) && forallb is_digit s && match s with 48 :: _ :: _ => false | _ => true end.

Definition port_ok (c : cfg) (scheme port : str) : bool :=
  is_nil port ||
  (canonical_decimal port && (digits_val 10 port <=? 65535)
   && match assoc scheme (c_special c) with Some dp => negb (str_eqb dp port) | None => true end).

Definition printable (b : N) : bool := (32 <=? b) && (b <=? 126).

Definition none_in (p : peset) (s : str) : bool := forallb (fun b => negb (RuneShouldBeEncoded p b)) s.

Definition s_colon_ss : str := [58;47;47].

Definition clause (n : N) (b : bool) : list N := if b then [] else [n].

Definition is_bracketed (h : str) : bool :=
  match h with 91 :: _ => has_suffix [93] h | _ => false end.

(* C04: structural invariants and coherence of the getters *)
Definition inv_obs (c : cfg) (l : list str) : list N :=
  let href := fld l f_href in let href_nf := fld l f_href_nf in
  let protocol := fld l f_protocol in let username := fld l f_username in let password := fld l f_password in
  let host := fld l f_host in let hostname := fld l f_hostname in let port := fld l f_port in
  let pathname := fld l f_pathname in let search := fld l f_search in let hash := fld l f_hash in
  let scheme := fld l f_scheme in let query := fld l f_query in let fragment := fld l f_fragment in
  let opaque := flag l f_opaque in
  let special := isSpecialScheme c scheme in
  let is_file := str_eqb scheme s_file in
  let creds := negb (is_nil username) || negb (is_nil password) in
  let userinfo := if creds then username ++ (if is_nil password then [] else 58 :: password) ++ [64] else [] in
  let qm := if is_nil search then [[]; [63]] else [search] in
  let hm := if is_nil hash then [[]; [35]] else [hash] in
  let with_auth := protocol ++ [47;47] ++ userinfo ++ host ++ pathname in
  let no_auth := protocol ++ (if has_prefix [47;47] pathname then [47;46] else []) ++ pathname in
  clause 1 (scheme_ok scheme) ++
  clause 2 (str_eqb protocol (scheme ++ [58])) ++
  clause 3 (negb special ||
            (negb opaque && has_prefix [47] pathname && has_prefix (scheme ++ s_colon_ss) href
             && (is_file || negb (is_nil hostname)))) ++
  clause 4 (negb opaque || (is_nil host && negb (has_prefix [47] pathname) && negb (has_prefix (scheme ++ s_colon_ss) href))) ++
  clause 5 (negb (creds || negb (is_nil port)) || (negb (is_nil hostname) && negb is_file)) ++
  clause 6 (port_ok c scheme port) ++
  clause 7 (forallb printable href) ++
  clause 8 (none_in pes_UserInfo username && none_in pes_UserInfo password) ++
  clause 9 (if opaque then none_in pes_C0 pathname else none_in (c_pathSet c) pathname) ++
  clause 10 (none_in (if special then c_squerySet c else c_querySet c) query) ++
  clause 11 (none_in (if special then c_sfragSet c else c_fragSet c) fragment) ++
  clause 12 (is_bracketed hostname ||
             (if special then forallb (fun b => negb (isForbiddenDomain b)) hostname && forallb (fun b => b <? 128) hostname
                              && forallb (fun b => negb (is_upper b)) hostname
              else forallb (fun b => negb (isForbiddenHost b)) hostname)) ++
  clause 13 (existsb (fun q => str_eqb href_nf (with_auth ++ q)) qm
             || (is_nil host && negb creds && existsb (fun q => str_eqb href_nf (no_auth ++ q)) qm)) ++
  clause 14 (str_eqb host (hostname ++ (if is_nil port then [] else 58 :: port))) ++
  clause 15 (existsb (fun h => str_eqb href (href_nf ++ h)) hm) ++
  clause 16 (negb (is_nil hostname) || is_nil host).

Definition dotted_decimal (h : str) : bool := isIPv4Address h.

(* C19: derived accessors agree with the primary components *)
Definition acc_obs (c : cfg) (l : list str) : list N :=
  let href := fld l f_href in
  let protocol := fld l f_protocol in let hostname := fld l f_hostname in let port := fld l f_port in
  let search := fld l f_search in let hash := fld l f_hash in
  let scheme := fld l f_scheme in let query := fld l f_query in let fragment := fld l f_fragment in
  let dport := fld l f_dport in
  let special := isSpecialScheme c scheme in
  let default_port :=
    match assoc scheme (c_special c) with
    | Some dp => if negb (is_nil dp) && forallb is_digit dp then digits_val 10 dp else 0
    | None => 0 end in
  clause 1 (Bool.eqb (flag l f_isv6) (is_bracketed hostname)) ++
  clause 2 (Bool.eqb (flag l f_isv4) (special && dotted_decimal hostname)) ++
  clause 3 (str_eqb dport (itoa (if is_nil port then default_port else digits_val 10 port))) ++
  clause 4 (str_eqb protocol (scheme ++ [58])) ++
  clause 5 (if is_nil query then is_nil search else str_eqb search (63 :: query)) ++
  clause 6 (if is_nil fragment then is_nil hash else str_eqb hash (35 :: fragment)) ++
  clause 7 (Bool.eqb (flag l f_opaque) (negb (has_prefix [47] (skipn (length scheme + 1) href)))) ++
  clause 8 (Bool.eqb (flag l f_special) special).
