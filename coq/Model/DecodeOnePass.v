(* canonicalizer/canonicalizer.go: the ONE-PASS repeatedDecode.

     func repeatedDecode(s string) string {
       if !strings.Contains(s, "%") { return s }
       out := make([]byte, 0, len(s))
       for i := 0; i < len(s); i++ {
         out = append(out, s[i])
         for n := len(out); n >= 3 && out[n-3] == '%' && isHex(out[n-2]) && isHex(out[n-1]); n = len(out) {
           out[n-3] = unhex(out[n-2])<<4 | unhex(out[n-1])
           out = out[:n-2]
         }
       }
       return string(out)
     }

   [out] is kept as a reversed list (a stack: the head is out[n-1]).  The iterated specification
   it has to agree with is Model/Canon.v [repeatedDecode]; the agreement is
   Proofs/DecodeOnePassProofs.v [onepass_eq_iterated]. *)
From Verif Require Import Lib.Base Gen.Tables Model.Sets.

(* unhex(h)<<4 | unhex(l): the same expression as in Canon.c_decode *)
Definition decode_byte (h l : N) : N := hex_val h * 16 + hex_val l.

(* ---------- literal transcription of the inner loop ---------- *)
(* one test of the loop condition on the stack l :: h :: p :: out' (l = out[n-1], h = out[n-2],
   p = out[n-3]); each round removes two elements, so [length out] rounds always suffice *)
Fixpoint collapse_fuel (fuel : nat) (out : list N) : list N :=
  match fuel with
  | O => out
  | S f =>
      match out with
      | l :: h :: p :: out' =>
          if (p =? 37) && isHexDigit h && isHexDigit l
          then collapse_fuel f (decode_byte h l :: out')
          else out
      | _ => out
      end
  end.

Definition collapse (out : list N) : list N := collapse_fuel (length out) out.

Fixpoint onepass_go_lit (stack : list N) (s : str) : list N :=
  match s with
  | [] => stack
  | b :: s' => onepass_go_lit (collapse (b :: stack)) s'
  end.

(* with the early return of the Go code *)
Definition repeatedDecode1_lit (s : str) : str :=
  if mem 37 s then rev (onepass_go_lit [] s) else s.

(* ---------- the same loop without fuel (the version that is extracted) ---------- *)
(* [push stack b] = append b, then run the inner loop.  Structural in [stack]: a round pops two
   elements and pushes the decoded byte, i.e. it is "push the decoded byte on the stack minus two".
   Proofs/DecodeOnePassProofs.v [collapse_push]: collapse (b :: stack) = push stack b. *)
Fixpoint push (stack : list N) (b : N) : list N :=
  match stack with
  | h :: p :: stack' =>
      if (p =? 37) && isHexDigit h && isHexDigit b
      then push stack' (decode_byte h b)
      else b :: stack
  | _ => b :: stack
  end.

Fixpoint onepass_go (stack : list N) (s : str) : list N :=
  match s with
  | [] => stack
  | b :: s' => onepass_go (push stack b) s'
  end.

(* the loop alone; Proofs/DecodeOnePassProofs.v [repeatedDecode1_early_return] shows that the early
   return changes nothing *)
Definition repeatedDecode1_loop (s : str) : str := rev (onepass_go [] s).

Definition repeatedDecode1 (s : str) : str :=
  if mem 37 s then repeatedDecode1_loop s else s.
