(* Public API: url/parser.go:52-81, url/url.go setters, url/searchparams.go *)
From Verif Require Import Lib.Base Lib.Utf8 Lib.GoStr Model.Cfg Gen.Tables Model.Sets Model.Percent Model.Url Model.Host Model.Machine.

Section Api.
  Variable idna_raw : str -> str * bool.
  Variable c : cfg.

  Notation BP := (BasicParser idna_raw c).

  (* result of a public parse call: a URL, an error, or abnormal termination *)
  Inductive pres := PUrl (u : url) | PErr (e : verr) | PNilNil | PPanic | PFuel.

  Definition to_pres (r : result) : pres :=
    match r with
    | RUrl u => PUrl u
    | RErr _ e => PErr e
    | RNilNil _ => PNilNil
    | RPanic => PPanic
    | ROutOfFuel => PFuel
    end.

  Definition Parse (rawUrl : str) : pres := to_pres (BP rawUrl None None None).
  Definition UrlParse (b : url) (ref : str) : pres := to_pres (BP ref (Some b) None None).
  Definition ParseRef (rawUrl ref : str) : pres :=
    match rawUrl with
    | [] => Parse ref
    | _ => match Parse rawUrl with
           | PUrl b => UrlParse b ref
           | other => other
           end
    end.

  (* ----- SearchParams (L1: the parameter list lives in the URL record) ----- *)
  Definition pair := (str * str)%type.

  (* SearchParams.toScalarValueString: invalid UTF-8 reads as U+FFFD unless the parser accepts invalid code points *)
  Definition sp_scalar (s : str) : str :=
    if c_acceptInvalid c || valid_utf8 s then s else to_valid s.

  Definition sp_init (query : str) : list pair :=
    flat_map (fun q =>
      match q with
      | [] => []
      | _ => let '(k, v) := cut 61 q in
             [(sp_scalar (DecodePercentEncoded c (plus_to_space k)),
               match v with Some v => sp_scalar (DecodePercentEncoded c (plus_to_space v)) | None => [] end)]
      end) (split 38 query).

  Definition QueryEscape (s : str) : str :=
    flat_map (fun b =>
      if b =? 32 then [43]
      else if (b =? 38) || (b =? 61) || (b =? 43) then percentEncodeRune c b None
      else percentEncodeRune c b (Some (c_querySet c))) (runes s).

  Definition sp_string (l : list pair) : str :=
    join [38] (map (fun nv : pair =>
      let '(n, v) := nv in
      QueryEscape n ++ (if negb (c_skipEq c) || negb (is_nil v) then [61] else []) ++
      (if negb (is_nil v) then QueryEscape v else [])) l).

  (* SearchParams.update: write the serialization through to the URL *)
  Definition sp_update (u : url) (l : list pair) : url :=
    let q := sp_string l in
    let u := set_sp u (Some l) in
    if (is_nil q && is_some (u_query u)) || negb (is_nil q) then set_query u (Some q) else u.

  (* u.SearchParams(): lazily created *)
  Definition ensure_sp (u : url) : url * list pair :=
    match u_sp u with
    | Some l => (u, l)
    | None => let l := match u_query u with Some q => sp_init q | None => [] end in (set_sp u (Some l), l)
    end.

  Definition sp_append (l : list pair) (n v : str) : list pair := l ++ [(n, v)].
  Definition sp_delete (l : list pair) (n : str) : list pair := filter (fun nv => negb (str_eqb (fst nv) n)) l.
  Definition sp_get (l : list pair) (n : str) : str :=
    match find (fun nv => str_eqb (fst nv) n) l with Some nv => snd nv | None => [] end.
  Definition sp_getall (l : list pair) (n : str) : list str :=
    map snd (filter (fun nv => str_eqb (fst nv) n) l).
  Definition sp_has (l : list pair) (n : str) : bool := existsb (fun nv => str_eqb (fst nv) n) l.
  Fixpoint sp_set_aux (l : list pair) (n v : str) (isSet : bool) : list pair * bool :=
    match l with
    | [] => ([], isSet)
    | (n', v') :: l' =>
        if str_eqb n' n then
          if isSet then sp_set_aux l' n v true
          else let '(r, s) := sp_set_aux l' n v true in ((n', v) :: r, s)
        else let '(r, s) := sp_set_aux l' n v isSet in ((n', v') :: r, s)
    end.
  Definition sp_set (l : list pair) (n v : str) : list pair :=
    let '(r, isSet) := sp_set_aux l n v false in if isSet then r else r ++ [(n, v)].
  Definition sp_sort (l : list pair) : list pair := sort_stable (fun a b => str_ltb (fst a) (fst b)) l.
  Definition sp_sort_abs (l : list pair) : list pair :=
    sort_stable (fun a b => str_ltb (fst a ++ snd a) (fst b ++ snd b)) l.

  (* ----- setters ----- *)
  (* a setter ignores what BasicParser returns; the record is whatever the parser left behind.
     None = the call panicked or ran out of fuel. *)
  Definition after (r : result) : option url :=
    match r with
    | RUrl u | RErr u _ | RNilNil u => Some u
    | RPanic | ROutOfFuel => None
    end.

  Definition no_host_or_file (u : url) : bool :=
    match u_host u with None => true | Some h => is_nil h end || str_eqb (u_scheme u) s_file.

  Definition SetProtocol (u : url) (s : str) : option url :=
    let s := if has_suffix [58] s then s else s ++ [58] in
    after (BP s None (Some u) (Some SchemeStart)).
  Definition SetUsername (u : url) (s : str) : option url :=
    if no_host_or_file u then Some u else Some (set_username u (PercentEncodeString c s pes_UserInfo)).
  Definition SetPassword (u : url) (s : str) : option url :=
    if no_host_or_file u then Some u else Some (set_password u (PercentEncodeString c s pes_UserInfo)).
  Definition SetHost (u : url) (s : str) : option url :=
    if u_opaque u then Some u else after (BP s None (Some u) (Some HostSt)).
  Definition SetHostname (u : url) (s : str) : option url :=
    if u_opaque u then Some u else after (BP s None (Some u) (Some HostnameSt)).
  Definition SetPort (u : url) (s : str) : option url :=
    if no_host_or_file u then Some u
    else match s with
         | [] => Some (set_port u None 0)
         | _ => after (BP s None (Some u) (Some PortSt))
         end.
  Definition SetPathname (u : url) (s : str) : option url :=
    if u_opaque u then Some u else after (BP s None (Some (set_path u [] false)) (Some PathStart)).

  (* path.stripTrailingSpacesIfOpaque: p.p[0] panics on an empty slice *)
  Definition strip_opaque (u : url) : option url :=
    if u_opaque u then
      match u_path u with
      | s :: rest => Some (set_path u (trim_right [32] s :: rest) true)
      | [] => None
      end
    else Some u.

  Definition SetSearch (u : url) (s : str) : option url :=
    match s with
    | [] =>
        let u := set_query u None in
        let u := match u_sp u with Some _ => set_sp u (Some []) | None => u end in
        if negb (is_some (u_fragment u)) then strip_opaque u else Some u
    | _ =>
        let s := trim_prefix1 63 s in
        let u := match u_query u with None => set_query u (Some []) | Some _ => u end in
        match after (BP s None (Some u) (Some QuerySt)) with
        | None => None
        | Some u =>
            match u_query u with
            | None => None        (* *u.query *)
            | Some q => Some (set_sp u (Some (sp_init q)))
            end
        end
    end.

  Definition SetHash (u : url) (s : str) : option url :=
    match s with
    | [] =>
        let u := set_fragment u None in
        if negb (is_some (u_query u)) then strip_opaque u else Some u
    | _ =>
        let s := trim_prefix1 35 s in
        after (BP s None (Some (set_fragment u (Some []))) (Some FragmentSt))
    end.

  (* Url.Clone: everything but the validation errors *)
  Definition Clone (u : url) : url := set_verrs u [].
End Api.
