(* Configuration records: Go parserOptions and canonicalizer profile. *)
From Verif Require Import Lib.Base.

(* PercentEncodeSet{allBelow, bs}: bits lists the set bits of the bitset *)
Record peset := { ab : N; bits : list N }.

(* the two host pre-processing functions of the predefined profiles; any other function as PH_fun *)
Inductive hostfun := HF_none | HF_gsb | HF_sem | HF_fun (f : str -> str).

Record cfg := {
  c_report : bool;             (* reportValidationErrors *)
  c_fail : bool;               (* failOnValidationError *)
  c_lax : bool;                (* laxHostParsing *)
  c_collapse : bool;           (* collapseConsecutiveSlashes *)
  c_acceptInvalid : bool;      (* acceptInvalidCodepoints *)
  c_pre : hostfun;             (* preParseHostFunc *)
  c_post : hostfun;            (* postParseHostFunc *)
  c_singlePct : bool;          (* percentEncodeSinglePercentSign *)
  c_allowPathNonBase : bool;   (* allowSettingPathForNonBaseUrl (read nowhere in the code) *)
  c_skipDrive : bool;          (* skipWindowsDriveLetterNormalization *)
  c_special : list (str * str);(* specialSchemes: scheme -> default port *)
  c_skipTrailSlash : bool;     (* skipTrailingSlashNormalization *)
  c_latin1 : bool;             (* encodingOverride == charmap.ISO8859_1 (nil otherwise) *)
  c_pathSet : peset;
  c_squerySet : peset;
  c_querySet : peset;
  c_sfragSet : peset;
  c_fragSet : peset;
  c_skipEq : bool              (* skipEqualsForEmptySearchParamsValue *)
}.

Inductive qsort := NoSort | SortKeys | SortParameter.

Record profile := {
  p_cfg : cfg;
  p_removeUserInfo : bool;
  p_removePort : bool;
  p_removeFragment : bool;
  p_sortQuery : qsort;
  p_repeated : bool;
  p_defaultScheme : str
}.
