(* url/url.go: the URL record, getters, serializer; url/path.go; url/errorhandler.go *)
From Verif Require Import Lib.Base Lib.Utf8 Lib.GoStr Model.Cfg Model.Sets Model.Percent.

(* errors/codes.go, in source order *)
Inductive etype :=
| DomainToASCII | DomainToUnicode
| DomainInvalidCodePoint | HostInvalidCodePoint | IPv4EmptyPart | IPv4TooManyParts | IPv4NonNumericPart
| IPv4NonDecimalPart | IPv4OutOfRangePart | IPv6Unclosed | IPv6InvalidCompression | IPv6TooManyPieces
| IPv6MultipleCompression | IPv6InvalidCodePoint | IPv6TooFewPieces | IPv4InIPv6TooManyPieces
| IPv4InIPv6InvalidCodePoint | IPv4InIPv6OutOfRangePart | IPv4InIPv6TooFewParts
| InvalidURLUnit | SpecialSchemeMissingFollowingSolidus | MissingSchemeNonRelativeURL | InvalidReverseSolidus
| InvalidCredentials | HostMissing | PortMissing | PortOutOfRange | PortInvalid
| FileInvalidWindowsDriveLetter | FileInvalidWindowsDriveLetterHost.

Definition etype_index (e : etype) : N :=
  match e with
  | DomainToASCII => 0 | DomainToUnicode => 1
  | DomainInvalidCodePoint => 2 | HostInvalidCodePoint => 3 | IPv4EmptyPart => 4 | IPv4TooManyParts => 5
  | IPv4NonNumericPart => 6 | IPv4NonDecimalPart => 7 | IPv4OutOfRangePart => 8 | IPv6Unclosed => 9
  | IPv6InvalidCompression => 10 | IPv6TooManyPieces => 11 | IPv6MultipleCompression => 12
  | IPv6InvalidCodePoint => 13 | IPv6TooFewPieces => 14 | IPv4InIPv6TooManyPieces => 15
  | IPv4InIPv6InvalidCodePoint => 16 | IPv4InIPv6OutOfRangePart => 17 | IPv4InIPv6TooFewParts => 18
  | InvalidURLUnit => 19 | SpecialSchemeMissingFollowingSolidus => 20 | MissingSchemeNonRelativeURL => 21
  | InvalidReverseSolidus => 22 | InvalidCredentials => 23 | HostMissing => 24 | PortMissing => 25
  | PortOutOfRange => 26 | PortInvalid => 27 | FileInvalidWindowsDriveLetter => 28
  | FileInvalidWindowsDriveLetterHost => 29
  end.

(* a ValidationError: type, failure flag, and the url it was raised for *)
Record verr := { e_type : etype; e_failure : bool; e_url : str }.

Record url := {
  u_input : str;                  (* inputUrl *)
  u_scheme : str;
  u_username : str;
  u_password : str;
  u_host : option str;
  u_port : option str;
  u_decodedPort : N;
  u_path : list str;              (* path.p *)
  u_opaque : bool;                (* path.opaque *)
  u_query : option str;
  u_fragment : option str;
  u_verrs : list verr;            (* validationErrors *)
  u_sp : option (list (str * str))   (* searchParams: None = not created yet; Some l = its parameter list *)
}.

Definition empty_url (input : str) : url :=
  {| u_input := input; u_scheme := []; u_username := []; u_password := []; u_host := None; u_port := None;
     u_decodedPort := 0; u_path := []; u_opaque := false; u_query := None; u_fragment := None; u_verrs := []; u_sp := None |}.

(* field updates *)
Definition set_input (u : url) (v : str) : url := {| u_input := v; u_scheme := u_scheme u; u_username := u_username u; u_password := u_password u; u_host := u_host u; u_port := u_port u; u_decodedPort := u_decodedPort u; u_path := u_path u; u_opaque := u_opaque u; u_query := u_query u; u_fragment := u_fragment u; u_verrs := u_verrs u; u_sp := u_sp u |}.
Definition set_scheme (u : url) (v : str) : url := {| u_input := u_input u; u_scheme := v; u_username := u_username u; u_password := u_password u; u_host := u_host u; u_port := u_port u; u_decodedPort := u_decodedPort u; u_path := u_path u; u_opaque := u_opaque u; u_query := u_query u; u_fragment := u_fragment u; u_verrs := u_verrs u; u_sp := u_sp u |}.
Definition set_username (u : url) (v : str) : url := {| u_input := u_input u; u_scheme := u_scheme u; u_username := v; u_password := u_password u; u_host := u_host u; u_port := u_port u; u_decodedPort := u_decodedPort u; u_path := u_path u; u_opaque := u_opaque u; u_query := u_query u; u_fragment := u_fragment u; u_verrs := u_verrs u; u_sp := u_sp u |}.
Definition set_password (u : url) (v : str) : url := {| u_input := u_input u; u_scheme := u_scheme u; u_username := u_username u; u_password := v; u_host := u_host u; u_port := u_port u; u_decodedPort := u_decodedPort u; u_path := u_path u; u_opaque := u_opaque u; u_query := u_query u; u_fragment := u_fragment u; u_verrs := u_verrs u; u_sp := u_sp u |}.
Definition set_host (u : url) (v : option str) : url := {| u_input := u_input u; u_scheme := u_scheme u; u_username := u_username u; u_password := u_password u; u_host := v; u_port := u_port u; u_decodedPort := u_decodedPort u; u_path := u_path u; u_opaque := u_opaque u; u_query := u_query u; u_fragment := u_fragment u; u_verrs := u_verrs u; u_sp := u_sp u |}.
Definition set_port (u : url) (v : option str) (d : N) : url := {| u_input := u_input u; u_scheme := u_scheme u; u_username := u_username u; u_password := u_password u; u_host := u_host u; u_port := v; u_decodedPort := d; u_path := u_path u; u_opaque := u_opaque u; u_query := u_query u; u_fragment := u_fragment u; u_verrs := u_verrs u; u_sp := u_sp u |}.
Definition set_path (u : url) (p : list str) (o : bool) : url := {| u_input := u_input u; u_scheme := u_scheme u; u_username := u_username u; u_password := u_password u; u_host := u_host u; u_port := u_port u; u_decodedPort := u_decodedPort u; u_path := p; u_opaque := o; u_query := u_query u; u_fragment := u_fragment u; u_verrs := u_verrs u; u_sp := u_sp u |}.
Definition set_query (u : url) (v : option str) : url := {| u_input := u_input u; u_scheme := u_scheme u; u_username := u_username u; u_password := u_password u; u_host := u_host u; u_port := u_port u; u_decodedPort := u_decodedPort u; u_path := u_path u; u_opaque := u_opaque u; u_query := v; u_fragment := u_fragment u; u_verrs := u_verrs u; u_sp := u_sp u |}.
Definition set_fragment (u : url) (v : option str) : url := {| u_input := u_input u; u_scheme := u_scheme u; u_username := u_username u; u_password := u_password u; u_host := u_host u; u_port := u_port u; u_decodedPort := u_decodedPort u; u_path := u_path u; u_opaque := u_opaque u; u_query := u_query u; u_fragment := v; u_verrs := u_verrs u; u_sp := u_sp u |}.
Definition set_verrs (u : url) (v : list verr) : url := {| u_input := u_input u; u_scheme := u_scheme u; u_username := u_username u; u_password := u_password u; u_host := u_host u; u_port := u_port u; u_decodedPort := u_decodedPort u; u_path := u_path u; u_opaque := u_opaque u; u_query := u_query u; u_fragment := u_fragment u; u_verrs := v; u_sp := u_sp u |}.
Definition set_sp (u : url) (v : option (list (str * str))) : url := {| u_input := u_input u; u_scheme := u_scheme u; u_username := u_username u; u_password := u_password u; u_host := u_host u; u_port := u_port u; u_decodedPort := u_decodedPort u; u_path := u_path u; u_opaque := u_opaque u; u_query := u_query u; u_fragment := u_fragment u; u_verrs := u_verrs u; u_sp := v |}.

(* ---------- special schemes (parser.go:903-936) ---------- *)
Fixpoint assoc (k : str) (l : list (str * str)) : option str :=
  match l with
  | [] => None
  | (k', v) :: l' => if str_eqb k k' then Some v else assoc k l'
  end.
Definition getSpecialScheme (c : cfg) (s : str) : option str := assoc s (c_special c).
Definition isSpecialScheme (c : cfg) (s : str) : bool := is_some (getSpecialScheme c s).
Definition IsSpecialScheme (c : cfg) (u : url) : bool := isSpecialScheme c (u_scheme u).
Definition isSpecialSchemeAndBackslash (c : cfg) (u : url) (r : N) : bool := IsSpecialScheme c u && (r =? 92).

Definition cleanDefaultPort (c : cfg) (u : url) : url :=
  match getSpecialScheme c (u_scheme u) with
  | Some dp =>
      match u_port u with
      | None => set_port u None 0
      | Some p => if str_eqb dp p then set_port u None 0 else u
      end
  | None => u
  end.

(* strconv.Atoi(dp) of the default port string; 0 when it is not a number *)
Definition getDefaultPort (c : cfg) (u : url) : N :=
  match getSpecialScheme c (u_scheme u) with
  | Some dp => if negb (is_nil dp) && all_in is_digit dp then digits_val 10 dp else 0
  | None => 0
  end.

(* ---------- url/errorhandler.go ---------- *)
(* returns the URL with the error recorded (if reporting) and the error to return (if any) *)
Definition handleError (c : cfg) (u : url) (t : etype) (failure : bool) : url * option verr :=
  let e := {| e_type := t; e_failure := failure; e_url := u_input u |} in
  let u' := if c_report c then set_verrs u (u_verrs u ++ [e]) else u in
  (u', if failure || c_fail c then Some e else None).

(* ---------- url/path.go ---------- *)
Definition isWindowsDriveLetter (s : str) : bool :=
  match s with [a; b] => isAlpha a && ((b =? 58) || (b =? 124)) | _ => false end.
Definition isNormalizedWindowsDriveLetter (s : str) : bool :=
  match s with [a; b] => isAlpha a && (b =? 58) | _ => false end.
Definition startsWithAWindowsDriveLetter (s : str) : bool :=
  match s with
  | a :: b :: rest =>
      isWindowsDriveLetter [a; b] &&
      match rest with
      | [] => true
      | x :: _ => (x =? 47) || (x =? 92) || (x =? 63) || (x =? 35)
      end
  | _ => false
  end.

Definition shortenPath (scheme : str) (p : list str) : list str :=
  match p with
  | [x] => if str_eqb scheme s_file && isNormalizedWindowsDriveLetter x then p else []
  | _ => drop_last p
  end.

Definition path_string (p : list str) (opaque : bool) : option str :=
  if opaque then nth_opt p 0            (* p.p[0]: panics (None) on an empty slice *)
  else Some (flat_map (fun s => 47 :: s) p).

(* ---------- getters (url/url.go) ---------- *)
Definition Protocol (u : url) : str := u_scheme u ++ [58].
Definition Username (u : url) := u_username u.
Definition Password (u : url) := u_password u.
Definition Hostname (u : url) : str := match u_host u with Some h => h | None => [] end.
Definition Port (u : url) : str := match u_port u with Some p => p | None => [] end.
Definition Host (u : url) : str :=
  match u_host u with
  | None => []
  | Some h => match u_port u with None => h | Some p => h ++ [58] ++ p end
  end.
Definition Pathname (u : url) : option str := path_string (u_path u) (u_opaque u).
Definition Search (u : url) : str :=
  match u_query u with Some (c :: q) => 63 :: c :: q | _ => [] end.
Definition Query (u : url) : str := match u_query u with Some q => q | None => [] end.
Definition Hash (u : url) : str :=
  match u_fragment u with Some (c :: f) => 35 :: c :: f | _ => [] end.
Definition Fragment (u : url) : str := match u_fragment u with Some f => f | None => [] end.
Definition DecodedPort (c : cfg) (u : url) : N :=
  match u_port u with None => getDefaultPort c u | Some _ => u_decodedPort u end.

Definition Href (u : url) (excludeFragment : bool) : option str :=
  match Pathname u with
  | None => None
  | Some pathname =>
    Some (
      u_scheme u ++ [58] ++
      (match u_host u with
       | Some h =>
           [47; 47] ++
           (if negb (is_nil (u_username u)) || negb (is_nil (u_password u))
            then u_username u ++ (if negb (is_nil (u_password u)) then 58 :: u_password u else []) ++ [64]
            else []) ++
           h ++ (match u_port u with Some p => 58 :: p | None => [] end)
       | None =>
           if negb (u_opaque u) && (1 <? len (u_path u))%Z && match u_path u with x :: _ => is_nil x | [] => false end
           then [47; 46] else []
       end) ++
      pathname ++
      (match u_query u with Some q => 63 :: q | None => [] end) ++
      (if excludeFragment then [] else match u_fragment u with Some f => 35 :: f | None => [] end))
  end.

(* IsIPv4 / IsIPv6 (derived from the host) *)
Definition isIPv4Address (s : str) : bool :=
  let parts := split 46 s in
  (len parts =? 4)%Z &&
  forallb (fun p => negb (is_nil p) && (len p <=? 3)%Z && all_in isDigit p
                    && negb ((1 <? len p)%Z && match p with x :: _ => x =? 48 | [] => false end)
                    && (digits_val 10 p <=? 255)) parts.
Definition IsIPv4 (c : cfg) (u : url) : bool :=
  match u_host u with Some h => IsSpecialScheme c u && isIPv4Address h | None => false end.
Definition IsIPv6 (u : url) : bool :=
  match u_host u with Some (91 :: t) => has_suffix [93] (91 :: t) | _ => false end.
