#!/usr/bin/env python3
"""Regenerates MANIFEST.json from properties.jsonl, the per-property texts below and the state of coq/Properties."""
import json, os, re
V = os.path.dirname(os.path.abspath(__file__))
props = [json.loads(l) for l in open(os.path.join(V, "properties.jsonl"))]
notes = json.load(open(os.path.join(V, "manifest_notes.json")))
checks = []
for p in props:
    pid = p["id"]
    n = notes[pid]
    has_thm = os.path.exists(os.path.join(V, "coq", "Properties", pid + ".v"))
    checks.append({
        "property_id": pid,
        "quick_cmd": "./check %s quick" % pid,
        "thorough_cmd": "./check %s thorough" % pid,
        "evidence_file": "/verif/evidence/%s.json" % pid,
        "replay_cmd_template": "./check %s --replay {path}" % pid,
        "engine": "coq+correspondence",
        "level_claimed": {"category": "proof" if has_thm else "exploration", "text": n["text"], "design_ref": "DESIGN.md section 4, " + pid},
        "level_note": n["note"],
        "technique": n["technique"],
    })
m = {
    "version": 1,
    "setup_cmd": "./setup.sh",
    "hooks": {"guard": "verif", "enable": "go build -tags verif (harness module, replace github.com/nlnwa/whatwg-url => /repo)",
              "baseline_off_cmd": "cd /repo && go test -count=1 ./...",
              "source_commits": ["c0d960d", "6e84822", "8686523"], "add_only": True},
    "engines": [{"name": "coq+correspondence", "path": "/verif/check", "serves_properties": [p["id"] for p in props],
                 "kind_free_text": "Coq 8.16.1 theorems about a Gallina model (coq/), generated tables (harness/cmd/gentables), extracted OCaml driver, Go differential harness (harness/cmd/vh)"}],
    "checks": checks,
    "not_applicable": [],
    "notes": "All 20 properties are claimed. See DESIGN.md; known findings in findings/known_findings.txt.",
}
json.dump(m, open(os.path.join(V, "MANIFEST.json"), "w"), indent=1)
print("MANIFEST.json written:", sum(1 for c in checks if c["level_claimed"]["category"] == "proof"), "proof-level checks")
