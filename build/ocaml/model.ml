
(** val negb : bool -> bool **)

let negb = function
| true -> false
| false -> true

type nat =
| O
| S of nat

(** val option_map : ('a1 -> 'a2) -> 'a1 option -> 'a2 option **)

let option_map f = function
| Some a -> Some (f a)
| None -> None

type ('a, 'b) sum =
| Inl of 'a
| Inr of 'b

(** val fst : ('a1 * 'a2) -> 'a1 **)

let fst = function
| (x, _) -> x

(** val snd : ('a1 * 'a2) -> 'a2 **)

let snd = function
| (_, y) -> y

(** val length : 'a1 list -> nat **)

let rec length = function
| [] -> O
| _ :: l' -> S (length l')

(** val app : 'a1 list -> 'a1 list -> 'a1 list **)

let rec app l m =
  match l with
  | [] -> m
  | a :: l1 -> a :: (app l1 m)

type comparison =
| Eq
| Lt
| Gt

(** val compOpp : comparison -> comparison **)

let compOpp = function
| Eq -> Eq
| Lt -> Gt
| Gt -> Lt

module Coq__1 = struct
 (** val add : nat -> nat -> nat **)
 let rec add n0 m =
   match n0 with
   | O -> m
   | S p -> S (add p m)
end
include Coq__1

(** val mul : nat -> nat -> nat **)

let rec mul n0 m =
  match n0 with
  | O -> O
  | S p -> add m (mul p m)

(** val sub : nat -> nat -> nat **)

let rec sub n0 m =
  match n0 with
  | O -> n0
  | S k -> (match m with
            | O -> n0
            | S l -> sub k l)

module Nat =
 struct
  (** val eqb : nat -> nat -> bool **)

  let rec eqb n0 m =
    match n0 with
    | O -> (match m with
            | O -> true
            | S _ -> false)
    | S n' -> (match m with
               | O -> false
               | S m' -> eqb n' m')

  (** val leb : nat -> nat -> bool **)

  let rec leb n0 m =
    match n0 with
    | O -> true
    | S n' -> (match m with
               | O -> false
               | S m' -> leb n' m')

  (** val ltb : nat -> nat -> bool **)

  let ltb n0 m =
    leb (S n0) m
 end

(** val tl : 'a1 list -> 'a1 list **)

let tl = function
| [] -> []
| _ :: m -> m

(** val nth : nat -> 'a1 list -> 'a1 -> 'a1 **)

let rec nth n0 l default =
  match n0 with
  | O -> (match l with
          | [] -> default
          | x :: _ -> x)
  | S m -> (match l with
            | [] -> default
            | _ :: t -> nth m t default)

(** val removelast : 'a1 list -> 'a1 list **)

let rec removelast = function
| [] -> []
| a :: l0 -> (match l0 with
              | [] -> []
              | _ :: _ -> a :: (removelast l0))

(** val rev : 'a1 list -> 'a1 list **)

let rec rev = function
| [] -> []
| x :: l' -> app (rev l') (x :: [])

(** val map : ('a1 -> 'a2) -> 'a1 list -> 'a2 list **)

let rec map f = function
| [] -> []
| a :: t -> (f a) :: (map f t)

(** val flat_map : ('a1 -> 'a2 list) -> 'a1 list -> 'a2 list **)

let rec flat_map f = function
| [] -> []
| x :: t -> app (f x) (flat_map f t)

(** val fold_left : ('a1 -> 'a2 -> 'a1) -> 'a2 list -> 'a1 -> 'a1 **)

let rec fold_left f l a0 =
  match l with
  | [] -> a0
  | b :: t -> fold_left f t (f a0 b)

(** val fold_right : ('a2 -> 'a1 -> 'a1) -> 'a1 -> 'a2 list -> 'a1 **)

let rec fold_right f a0 = function
| [] -> a0
| b :: t -> f b (fold_right f a0 t)

(** val existsb : ('a1 -> bool) -> 'a1 list -> bool **)

let rec existsb f = function
| [] -> false
| a :: l0 -> (||) (f a) (existsb f l0)

(** val forallb : ('a1 -> bool) -> 'a1 list -> bool **)

let rec forallb f = function
| [] -> true
| a :: l0 -> (&&) (f a) (forallb f l0)

(** val filter : ('a1 -> bool) -> 'a1 list -> 'a1 list **)

let rec filter f = function
| [] -> []
| x :: l0 -> if f x then x :: (filter f l0) else filter f l0

(** val find : ('a1 -> bool) -> 'a1 list -> 'a1 option **)

let rec find f = function
| [] -> None
| x :: tl0 -> if f x then Some x else find f tl0

(** val firstn : nat -> 'a1 list -> 'a1 list **)

let rec firstn n0 l =
  match n0 with
  | O -> []
  | S n1 -> (match l with
             | [] -> []
             | a :: l0 -> a :: (firstn n1 l0))

(** val skipn : nat -> 'a1 list -> 'a1 list **)

let rec skipn n0 l =
  match n0 with
  | O -> l
  | S n1 -> (match l with
             | [] -> []
             | _ :: l0 -> skipn n1 l0)

type positive =
| XI of positive
| XO of positive
| XH

type n =
| N0
| Npos of positive

type z =
| Z0
| Zpos of positive
| Zneg of positive

module Pos =
 struct
  type mask =
  | IsNul
  | IsPos of positive
  | IsNeg
 end

module Coq_Pos =
 struct
  (** val succ : positive -> positive **)

  let rec succ = function
  | XI p -> XO (succ p)
  | XO p -> XI p
  | XH -> XO XH

  (** val add : positive -> positive -> positive **)

  let rec add x y =
    match x with
    | XI p ->
      (match y with
       | XI q -> XO (add_carry p q)
       | XO q -> XI (add p q)
       | XH -> XO (succ p))
    | XO p ->
      (match y with
       | XI q -> XI (add p q)
       | XO q -> XO (add p q)
       | XH -> XI p)
    | XH -> (match y with
             | XI q -> XO (succ q)
             | XO q -> XI q
             | XH -> XO XH)

  (** val add_carry : positive -> positive -> positive **)

  and add_carry x y =
    match x with
    | XI p ->
      (match y with
       | XI q -> XI (add_carry p q)
       | XO q -> XO (add_carry p q)
       | XH -> XI (succ p))
    | XO p ->
      (match y with
       | XI q -> XO (add_carry p q)
       | XO q -> XI (add p q)
       | XH -> XO (succ p))
    | XH ->
      (match y with
       | XI q -> XI (succ q)
       | XO q -> XO (succ q)
       | XH -> XI XH)

  (** val pred_double : positive -> positive **)

  let rec pred_double = function
  | XI p -> XI (XO p)
  | XO p -> XI (pred_double p)
  | XH -> XH

  type mask = Pos.mask =
  | IsNul
  | IsPos of positive
  | IsNeg

  (** val succ_double_mask : mask -> mask **)

  let succ_double_mask = function
  | IsNul -> IsPos XH
  | IsPos p -> IsPos (XI p)
  | IsNeg -> IsNeg

  (** val double_mask : mask -> mask **)

  let double_mask = function
  | IsPos p -> IsPos (XO p)
  | x0 -> x0

  (** val double_pred_mask : positive -> mask **)

  let double_pred_mask = function
  | XI p -> IsPos (XO (XO p))
  | XO p -> IsPos (XO (pred_double p))
  | XH -> IsNul

  (** val sub_mask : positive -> positive -> mask **)

  let rec sub_mask x y =
    match x with
    | XI p ->
      (match y with
       | XI q -> double_mask (sub_mask p q)
       | XO q -> succ_double_mask (sub_mask p q)
       | XH -> IsPos (XO p))
    | XO p ->
      (match y with
       | XI q -> succ_double_mask (sub_mask_carry p q)
       | XO q -> double_mask (sub_mask p q)
       | XH -> IsPos (pred_double p))
    | XH -> (match y with
             | XH -> IsNul
             | _ -> IsNeg)

  (** val sub_mask_carry : positive -> positive -> mask **)

  and sub_mask_carry x y =
    match x with
    | XI p ->
      (match y with
       | XI q -> succ_double_mask (sub_mask_carry p q)
       | XO q -> double_mask (sub_mask p q)
       | XH -> IsPos (pred_double p))
    | XO p ->
      (match y with
       | XI q -> double_mask (sub_mask_carry p q)
       | XO q -> succ_double_mask (sub_mask_carry p q)
       | XH -> double_pred_mask p)
    | XH -> IsNeg

  (** val mul : positive -> positive -> positive **)

  let rec mul x y =
    match x with
    | XI p -> add y (XO (mul p y))
    | XO p -> XO (mul p y)
    | XH -> y

  (** val iter : ('a1 -> 'a1) -> 'a1 -> positive -> 'a1 **)

  let rec iter f x = function
  | XI n' -> f (iter f (iter f x n') n')
  | XO n' -> iter f (iter f x n') n'
  | XH -> f x

  (** val pow : positive -> positive -> positive **)

  let pow x =
    iter (mul x) XH

  (** val size_nat : positive -> nat **)

  let rec size_nat = function
  | XI p0 -> S (size_nat p0)
  | XO p0 -> S (size_nat p0)
  | XH -> S O

  (** val compare_cont : comparison -> positive -> positive -> comparison **)

  let rec compare_cont r x y =
    match x with
    | XI p ->
      (match y with
       | XI q -> compare_cont r p q
       | XO q -> compare_cont Gt p q
       | XH -> Gt)
    | XO p ->
      (match y with
       | XI q -> compare_cont Lt p q
       | XO q -> compare_cont r p q
       | XH -> Gt)
    | XH -> (match y with
             | XH -> r
             | _ -> Lt)

  (** val compare : positive -> positive -> comparison **)

  let compare =
    compare_cont Eq

  (** val eqb : positive -> positive -> bool **)

  let rec eqb p q =
    match p with
    | XI p0 -> (match q with
                | XI q0 -> eqb p0 q0
                | _ -> false)
    | XO p0 -> (match q with
                | XO q0 -> eqb p0 q0
                | _ -> false)
    | XH -> (match q with
             | XH -> true
             | _ -> false)

  (** val iter_op : ('a1 -> 'a1 -> 'a1) -> positive -> 'a1 -> 'a1 **)

  let rec iter_op op0 p a =
    match p with
    | XI p0 -> op0 a (iter_op op0 p0 (op0 a a))
    | XO p0 -> iter_op op0 p0 (op0 a a)
    | XH -> a

  (** val to_nat : positive -> nat **)

  let to_nat x =
    iter_op Coq__1.add x (S O)

  (** val of_succ_nat : nat -> positive **)

  let rec of_succ_nat = function
  | O -> XH
  | S x -> succ (of_succ_nat x)
 end

module N =
 struct
  (** val succ_double : n -> n **)

  let succ_double = function
  | N0 -> Npos XH
  | Npos p -> Npos (XI p)

  (** val double : n -> n **)

  let double = function
  | N0 -> N0
  | Npos p -> Npos (XO p)

  (** val add : n -> n -> n **)

  let add n0 m =
    match n0 with
    | N0 -> m
    | Npos p -> (match m with
                 | N0 -> n0
                 | Npos q -> Npos (Coq_Pos.add p q))

  (** val sub : n -> n -> n **)

  let sub n0 m =
    match n0 with
    | N0 -> N0
    | Npos n' ->
      (match m with
       | N0 -> n0
       | Npos m' ->
         (match Coq_Pos.sub_mask n' m' with
          | Coq_Pos.IsPos p -> Npos p
          | _ -> N0))

  (** val mul : n -> n -> n **)

  let mul n0 m =
    match n0 with
    | N0 -> N0
    | Npos p -> (match m with
                 | N0 -> N0
                 | Npos q -> Npos (Coq_Pos.mul p q))

  (** val compare : n -> n -> comparison **)

  let compare n0 m =
    match n0 with
    | N0 -> (match m with
             | N0 -> Eq
             | Npos _ -> Lt)
    | Npos n' -> (match m with
                  | N0 -> Gt
                  | Npos m' -> Coq_Pos.compare n' m')

  (** val eqb : n -> n -> bool **)

  let eqb n0 m =
    match n0 with
    | N0 -> (match m with
             | N0 -> true
             | Npos _ -> false)
    | Npos p -> (match m with
                 | N0 -> false
                 | Npos q -> Coq_Pos.eqb p q)

  (** val leb : n -> n -> bool **)

  let leb x y =
    match compare x y with
    | Gt -> false
    | _ -> true

  (** val ltb : n -> n -> bool **)

  let ltb x y =
    match compare x y with
    | Lt -> true
    | _ -> false

  (** val pow : n -> n -> n **)

  let pow n0 = function
  | N0 -> Npos XH
  | Npos p0 -> (match n0 with
                | N0 -> N0
                | Npos q -> Npos (Coq_Pos.pow q p0))

  (** val size_nat : n -> nat **)

  let size_nat = function
  | N0 -> O
  | Npos p -> Coq_Pos.size_nat p

  (** val pos_div_eucl : positive -> n -> n * n **)

  let rec pos_div_eucl a b =
    match a with
    | XI a' ->
      let (q, r) = pos_div_eucl a' b in
      let r' = succ_double r in
      if leb b r' then ((succ_double q), (sub r' b)) else ((double q), r')
    | XO a' ->
      let (q, r) = pos_div_eucl a' b in
      let r' = double r in
      if leb b r' then ((succ_double q), (sub r' b)) else ((double q), r')
    | XH ->
      (match b with
       | N0 -> (N0, (Npos XH))
       | Npos p -> (match p with
                    | XH -> ((Npos XH), N0)
                    | _ -> (N0, (Npos XH))))

  (** val div_eucl : n -> n -> n * n **)

  let div_eucl a b =
    match a with
    | N0 -> (N0, N0)
    | Npos na -> (match b with
                  | N0 -> (N0, a)
                  | Npos _ -> pos_div_eucl na b)

  (** val div : n -> n -> n **)

  let div a b =
    fst (div_eucl a b)

  (** val modulo : n -> n -> n **)

  let modulo a b =
    snd (div_eucl a b)

  (** val of_nat : nat -> n **)

  let of_nat = function
  | O -> N0
  | S n' -> Npos (Coq_Pos.of_succ_nat n')
 end

module Z =
 struct
  (** val double : z -> z **)

  let double = function
  | Z0 -> Z0
  | Zpos p -> Zpos (XO p)
  | Zneg p -> Zneg (XO p)

  (** val succ_double : z -> z **)

  let succ_double = function
  | Z0 -> Zpos XH
  | Zpos p -> Zpos (XI p)
  | Zneg p -> Zneg (Coq_Pos.pred_double p)

  (** val pred_double : z -> z **)

  let pred_double = function
  | Z0 -> Zneg XH
  | Zpos p -> Zpos (Coq_Pos.pred_double p)
  | Zneg p -> Zneg (XI p)

  (** val pos_sub : positive -> positive -> z **)

  let rec pos_sub x y =
    match x with
    | XI p ->
      (match y with
       | XI q -> double (pos_sub p q)
       | XO q -> succ_double (pos_sub p q)
       | XH -> Zpos (XO p))
    | XO p ->
      (match y with
       | XI q -> pred_double (pos_sub p q)
       | XO q -> double (pos_sub p q)
       | XH -> Zpos (Coq_Pos.pred_double p))
    | XH ->
      (match y with
       | XI q -> Zneg (XO q)
       | XO q -> Zneg (Coq_Pos.pred_double q)
       | XH -> Z0)

  (** val add : z -> z -> z **)

  let add x y =
    match x with
    | Z0 -> y
    | Zpos x' ->
      (match y with
       | Z0 -> x
       | Zpos y' -> Zpos (Coq_Pos.add x' y')
       | Zneg y' -> pos_sub x' y')
    | Zneg x' ->
      (match y with
       | Z0 -> x
       | Zpos y' -> pos_sub y' x'
       | Zneg y' -> Zneg (Coq_Pos.add x' y'))

  (** val opp : z -> z **)

  let opp = function
  | Z0 -> Z0
  | Zpos x0 -> Zneg x0
  | Zneg x0 -> Zpos x0

  (** val sub : z -> z -> z **)

  let sub m n0 =
    add m (opp n0)

  (** val compare : z -> z -> comparison **)

  let compare x y =
    match x with
    | Z0 -> (match y with
             | Z0 -> Eq
             | Zpos _ -> Lt
             | Zneg _ -> Gt)
    | Zpos x' -> (match y with
                  | Zpos y' -> Coq_Pos.compare x' y'
                  | _ -> Gt)
    | Zneg x' ->
      (match y with
       | Zneg y' -> compOpp (Coq_Pos.compare x' y')
       | _ -> Lt)

  (** val leb : z -> z -> bool **)

  let leb x y =
    match compare x y with
    | Gt -> false
    | _ -> true

  (** val ltb : z -> z -> bool **)

  let ltb x y =
    match compare x y with
    | Lt -> true
    | _ -> false

  (** val eqb : z -> z -> bool **)

  let eqb x y =
    match x with
    | Z0 -> (match y with
             | Z0 -> true
             | _ -> false)
    | Zpos p -> (match y with
                 | Zpos q -> Coq_Pos.eqb p q
                 | _ -> false)
    | Zneg p -> (match y with
                 | Zneg q -> Coq_Pos.eqb p q
                 | _ -> false)

  (** val to_nat : z -> nat **)

  let to_nat = function
  | Zpos p -> Coq_Pos.to_nat p
  | _ -> O

  (** val of_nat : nat -> z **)

  let of_nat = function
  | O -> Z0
  | S n1 -> Zpos (Coq_Pos.of_succ_nat n1)
 end

type str = n list

(** val list_eqb : ('a1 -> 'a1 -> bool) -> 'a1 list -> 'a1 list -> bool **)

let rec list_eqb e a b =
  match a with
  | [] -> (match b with
           | [] -> true
           | _ :: _ -> false)
  | x :: a' ->
    (match b with
     | [] -> false
     | y :: b' -> (&&) (e x y) (list_eqb e a' b'))

(** val str_eqb : str -> str -> bool **)

let str_eqb =
  list_eqb N.eqb

(** val is_nil : 'a1 list -> bool **)

let is_nil = function
| [] -> true
| _ :: _ -> false

(** val is_some : 'a1 option -> bool **)

let is_some = function
| Some _ -> true
| None -> false

(** val mem : n -> n list -> bool **)

let mem x l =
  existsb (N.eqb x) l

(** val last_opt : 'a1 list -> 'a1 option **)

let rec last_opt = function
| [] -> None
| x :: l' -> (match l' with
              | [] -> Some x
              | _ :: _ -> last_opt l')

(** val drop_last : 'a1 list -> 'a1 list **)

let drop_last =
  removelast

(** val replace_last : 'a1 list -> 'a1 -> 'a1 list **)

let rec replace_last l x =
  match l with
  | [] -> []
  | y :: l' ->
    (match l' with
     | [] -> x :: []
     | _ :: _ -> y :: (replace_last l' x))

(** val nth_opt : 'a1 list -> nat -> 'a1 option **)

let rec nth_opt l n0 =
  match l with
  | [] -> None
  | x :: l' -> (match n0 with
                | O -> Some x
                | S n' -> nth_opt l' n')

(** val len : 'a1 list -> z **)

let len l =
  Z.of_nat (length l)

(** val has_prefix : str -> str -> bool **)

let rec has_prefix p s =
  match p with
  | [] -> true
  | x :: p' ->
    (match s with
     | [] -> false
     | y :: s' -> (&&) (N.eqb x y) (has_prefix p' s'))

(** val has_suffix : str -> str -> bool **)

let has_suffix p s =
  has_prefix (rev p) (rev s)

(** val all_in : (n -> bool) -> str -> bool **)

let rec all_in f = function
| [] -> true
| c :: s' -> (&&) (f c) (all_in f s')

(** val is_digit : n -> bool **)

let is_digit c =
  (&&) (N.leb (Npos (XO (XO (XO (XO (XI XH)))))) c)
    (N.leb c (Npos (XI (XO (XO (XI (XI XH)))))))

(** val is_upper : n -> bool **)

let is_upper c =
  (&&) (N.leb (Npos (XI (XO (XO (XO (XO (XO XH))))))) c)
    (N.leb c (Npos (XO (XI (XO (XI (XI (XO XH))))))))

(** val ascii_lower : n -> n **)

let ascii_lower c =
  if is_upper c then N.add c (Npos (XO (XO (XO (XO (XO XH)))))) else c

(** val str_lower : str -> str **)

let str_lower s =
  map ascii_lower s

(** val hex_val : n -> n **)

let hex_val c =
  if is_digit c
  then N.sub c (Npos (XO (XO (XO (XO (XI XH))))))
  else if (&&) (N.leb (Npos (XI (XO (XO (XO (XO (XO XH))))))) c)
            (N.leb c (Npos (XO (XI (XI (XO (XO (XO XH))))))))
       then N.sub c (Npos (XI (XI (XI (XO (XI XH))))))
       else if (&&) (N.leb (Npos (XI (XO (XO (XO (XO (XI XH))))))) c)
                 (N.leb c (Npos (XO (XI (XI (XO (XO (XI XH))))))))
            then N.sub c (Npos (XI (XI (XI (XO (XI (XO XH)))))))
            else N0

(** val hex_upper : n -> n **)

let hex_upper n0 =
  if N.ltb n0 (Npos (XO (XI (XO XH))))
  then N.add (Npos (XO (XO (XO (XO (XI XH)))))) n0
  else N.add (Npos (XI (XI (XI (XO (XI XH)))))) n0

(** val hex_lower : n -> n **)

let hex_lower n0 =
  if N.ltb n0 (Npos (XO (XI (XO XH))))
  then N.add (Npos (XO (XO (XO (XO (XI XH)))))) n0
  else N.add (Npos (XI (XI (XI (XO (XI (XO XH))))))) n0

(** val pct_byte : n -> str **)

let pct_byte b =
  (Npos (XI (XO (XI (XO (XO
    XH)))))) :: ((hex_upper (N.div b (Npos (XO (XO (XO (XO XH))))))) :: (
    (hex_upper (N.modulo b (Npos (XO (XO (XO (XO XH))))))) :: []))

(** val s_file : str **)

let s_file =
  (Npos (XO (XI (XI (XO (XO (XI XH))))))) :: ((Npos (XI (XO (XO (XI (XO (XI
    XH))))))) :: ((Npos (XO (XO (XI (XI (XO (XI XH))))))) :: ((Npos (XI (XO
    (XI (XO (XO (XI XH))))))) :: [])))

(** val s_localhost : str **)

let s_localhost =
  (Npos (XO (XO (XI (XI (XO (XI XH))))))) :: ((Npos (XI (XI (XI (XI (XO (XI
    XH))))))) :: ((Npos (XI (XI (XO (XO (XO (XI XH))))))) :: ((Npos (XI (XO
    (XO (XO (XO (XI XH))))))) :: ((Npos (XO (XO (XI (XI (XO (XI
    XH))))))) :: ((Npos (XO (XO (XO (XI (XO (XI XH))))))) :: ((Npos (XI (XI
    (XI (XI (XO (XI XH))))))) :: ((Npos (XI (XI (XO (XO (XI (XI
    XH))))))) :: ((Npos (XO (XO (XI (XO (XI (XI XH))))))) :: []))))))))

(** val rune_error : n **)

let rune_error =
  Npos (XI (XO (XI (XI (XI (XI (XI (XI (XI (XI (XI (XI (XI (XI (XI
    XH)))))))))))))))

(** val is_surrogate : n -> bool **)

let is_surrogate c =
  (&&)
    (N.leb (Npos (XO (XO (XO (XO (XO (XO (XO (XO (XO (XO (XO (XI (XI (XO (XI
      XH)))))))))))))))) c)
    (N.leb c (Npos (XI (XI (XI (XI (XI (XI (XI (XI (XI (XI (XI (XI (XI (XO
      (XI XH)))))))))))))))))

(** val utf8_enc : n -> str **)

let utf8_enc c =
  if N.ltb c (Npos (XO (XO (XO (XO (XO (XO (XO XH))))))))
  then c :: []
  else if N.ltb c (Npos (XO (XO (XO (XO (XO (XO (XO (XO (XO (XO (XO
            XH))))))))))))
       then (N.add (Npos (XO (XO (XO (XO (XO (XO (XI XH))))))))
              (N.div c (Npos (XO (XO (XO (XO (XO (XO XH))))))))) :: (
              (N.add (Npos (XO (XO (XO (XO (XO (XO (XO XH))))))))
                (N.modulo c (Npos (XO (XO (XO (XO (XO (XO XH))))))))) :: [])
       else if (||) (is_surrogate c)
                 (N.ltb (Npos (XI (XI (XI (XI (XI (XI (XI (XI (XI (XI (XI (XI
                   (XI (XI (XI (XI (XO (XO (XO (XO XH))))))))))))))))))))) c)
            then (Npos (XI (XI (XI (XI (XO (XI (XI XH)))))))) :: ((Npos (XI
                   (XI (XI (XI (XI (XI (XO XH)))))))) :: ((Npos (XI (XO (XI
                   (XI (XI (XI (XO XH)))))))) :: []))
            else if N.ltb c (Npos (XO (XO (XO (XO (XO (XO (XO (XO (XO (XO (XO
                      (XO (XO (XO (XO (XO XH)))))))))))))))))
                 then (N.add (Npos (XO (XO (XO (XO (XO (XI (XI XH))))))))
                        (N.div c (Npos (XO (XO (XO (XO (XO (XO (XO (XO (XO
                          (XO (XO (XO XH))))))))))))))) :: ((N.add (Npos (XO
                                                              (XO (XO (XO (XO
                                                              (XO (XO
                                                              XH))))))))
                                                              (N.modulo
                                                                (N.div c
                                                                  (Npos (XO
                                                                  (XO (XO (XO
                                                                  (XO (XO
                                                                  XH))))))))
                                                                (Npos (XO (XO
                                                                (XO (XO (XO
                                                                (XO XH))))))))) :: (
                        (N.add (Npos (XO (XO (XO (XO (XO (XO (XO XH))))))))
                          (N.modulo c (Npos (XO (XO (XO (XO (XO (XO XH))))))))) :: []))
                 else (N.add (Npos (XO (XO (XO (XO (XI (XI (XI XH))))))))
                        (N.div c (Npos (XO (XO (XO (XO (XO (XO (XO (XO (XO
                          (XO (XO (XO (XO (XO (XO (XO (XO (XO
                          XH))))))))))))))))))))) :: ((N.add (Npos (XO (XO
                                                        (XO (XO (XO (XO (XO
                                                        XH))))))))
                                                        (N.modulo
                                                          (N.div c (Npos (XO
                                                            (XO (XO (XO (XO
                                                            (XO (XO (XO (XO
                                                            (XO (XO (XO
                                                            XH))))))))))))))
                                                          (Npos (XO (XO (XO
                                                          (XO (XO (XO
                                                          XH))))))))) :: (
                        (N.add (Npos (XO (XO (XO (XO (XO (XO (XO XH))))))))
                          (N.modulo
                            (N.div c (Npos (XO (XO (XO (XO (XO (XO XH))))))))
                            (Npos (XO (XO (XO (XO (XO (XO XH))))))))) :: (
                        (N.add (Npos (XO (XO (XO (XO (XO (XO (XO XH))))))))
                          (N.modulo c (Npos (XO (XO (XO (XO (XO (XO XH))))))))) :: [])))

(** val is_cont : n -> bool **)

let is_cont b =
  (&&) (N.leb (Npos (XO (XO (XO (XO (XO (XO (XO XH)))))))) b)
    (N.leb b (Npos (XI (XI (XI (XI (XI (XI (XO XH)))))))))

(** val in_rng : n -> n -> n -> bool **)

let in_rng lo hi b =
  (&&) (N.leb lo b) (N.leb b hi)

type rune =
| Good of n
| Bad of n

(** val rv : rune -> n **)

let rv = function
| Good c -> c
| Bad _ -> rune_error

(** val dec1 : n -> str -> rune * str **)

let dec1 b0 rest =
  if N.ltb b0 (Npos (XO (XO (XO (XO (XO (XO (XO XH))))))))
  then ((Good b0), rest)
  else if in_rng (Npos (XO (XI (XO (XO (XO (XO (XI XH)))))))) (Npos (XI (XI
            (XI (XI (XI (XO (XI XH)))))))) b0
       then (match rest with
             | [] -> ((Bad b0), rest)
             | b1 :: r1 ->
               if is_cont b1
               then ((Good
                      (N.add
                        (N.mul
                          (N.sub b0 (Npos (XO (XO (XO (XO (XO (XO (XI
                            XH))))))))) (Npos (XO (XO (XO (XO (XO (XO
                          XH))))))))
                        (N.sub b1 (Npos (XO (XO (XO (XO (XO (XO (XO
                          XH))))))))))), r1)
               else ((Bad b0), rest))
       else if in_rng (Npos (XO (XO (XO (XO (XO (XI (XI XH)))))))) (Npos (XI
                 (XI (XI (XI (XO (XI (XI XH)))))))) b0
            then (match rest with
                  | [] -> ((Bad b0), rest)
                  | b1 :: l ->
                    (match l with
                     | [] -> ((Bad b0), rest)
                     | b2 :: r2 ->
                       let lo =
                         if N.eqb b0 (Npos (XO (XO (XO (XO (XO (XI (XI
                              XH))))))))
                         then Npos (XO (XO (XO (XO (XO (XI (XO XH)))))))
                         else Npos (XO (XO (XO (XO (XO (XO (XO XH)))))))
                       in
                       let hi =
                         if N.eqb b0 (Npos (XI (XO (XI (XI (XO (XI (XI
                              XH))))))))
                         then Npos (XI (XI (XI (XI (XI (XO (XO XH)))))))
                         else Npos (XI (XI (XI (XI (XI (XI (XO XH)))))))
                       in
                       if (&&) (in_rng lo hi b1) (is_cont b2)
                       then ((Good
                              (N.add
                                (N.add
                                  (N.mul
                                    (N.sub b0 (Npos (XO (XO (XO (XO (XO (XI
                                      (XI XH))))))))) (Npos (XO (XO (XO (XO
                                    (XO (XO (XO (XO (XO (XO (XO (XO
                                    XH))))))))))))))
                                  (N.mul
                                    (N.sub b1 (Npos (XO (XO (XO (XO (XO (XO
                                      (XO XH))))))))) (Npos (XO (XO (XO (XO
                                    (XO (XO XH)))))))))
                                (N.sub b2 (Npos (XO (XO (XO (XO (XO (XO (XO
                                  XH))))))))))), r2)
                       else ((Bad b0), rest)))
            else if in_rng (Npos (XO (XO (XO (XO (XI (XI (XI XH)))))))) (Npos
                      (XO (XO (XI (XO (XI (XI (XI XH)))))))) b0
                 then (match rest with
                       | [] -> ((Bad b0), rest)
                       | b1 :: l ->
                         (match l with
                          | [] -> ((Bad b0), rest)
                          | b2 :: l0 ->
                            (match l0 with
                             | [] -> ((Bad b0), rest)
                             | b3 :: r3 ->
                               let lo =
                                 if N.eqb b0 (Npos (XO (XO (XO (XO (XI (XI
                                      (XI XH))))))))
                                 then Npos (XO (XO (XO (XO (XI (XO (XO
                                        XH)))))))
                                 else Npos (XO (XO (XO (XO (XO (XO (XO
                                        XH)))))))
                               in
                               let hi =
                                 if N.eqb b0 (Npos (XO (XO (XI (XO (XI (XI
                                      (XI XH))))))))
                                 then Npos (XI (XI (XI (XI (XO (XO (XO
                                        XH)))))))
                                 else Npos (XI (XI (XI (XI (XI (XI (XO
                                        XH)))))))
                               in
                               if (&&) ((&&) (in_rng lo hi b1) (is_cont b2))
                                    (is_cont b3)
                               then ((Good
                                      (N.add
                                        (N.add
                                          (N.add
                                            (N.mul
                                              (N.sub b0 (Npos (XO (XO (XO (XO
                                                (XI (XI (XI XH))))))))) (Npos
                                              (XO (XO (XO (XO (XO (XO (XO (XO
                                              (XO (XO (XO (XO (XO (XO (XO (XO
                                              (XO (XO XH))))))))))))))))))))
                                            (N.mul
                                              (N.sub b1 (Npos (XO (XO (XO (XO
                                                (XO (XO (XO XH))))))))) (Npos
                                              (XO (XO (XO (XO (XO (XO (XO (XO
                                              (XO (XO (XO (XO XH)))))))))))))))
                                          (N.mul
                                            (N.sub b2 (Npos (XO (XO (XO (XO
                                              (XO (XO (XO XH))))))))) (Npos
                                            (XO (XO (XO (XO (XO (XO XH)))))))))
                                        (N.sub b3 (Npos (XO (XO (XO (XO (XO
                                          (XO (XO XH))))))))))), r3)
                               else ((Bad b0), rest))))
                 else ((Bad b0), rest)

(** val decode_fuel : nat -> str -> rune list **)

let rec decode_fuel fuel s =
  match fuel with
  | O -> []
  | S f ->
    (match s with
     | [] -> []
     | b0 :: rest ->
       let (r, rest') = dec1 b0 rest in r :: (decode_fuel f rest'))

(** val decode : str -> rune list **)

let decode s =
  decode_fuel (length s) s

(** val runes : str -> n list **)

let runes s =
  map rv (decode s)

(** val encode_runes : n list -> str **)

let encode_runes l =
  flat_map utf8_enc l

(** val valid_utf8 : str -> bool **)

let valid_utf8 s =
  forallb (fun r -> match r with
                    | Good _ -> true
                    | Bad _ -> false) (decode s)

(** val split_aux : n -> str -> str -> str list **)

let rec split_aux sep s cur =
  match s with
  | [] -> (rev cur) :: []
  | c :: s' ->
    if N.eqb c sep
    then (rev cur) :: (split_aux sep s' [])
    else split_aux sep s' (c :: cur)

(** val split : n -> str -> str list **)

let split sep s =
  split_aux sep s []

(** val cut_aux : n -> str -> str -> str * str option **)

let rec cut_aux sep s cur =
  match s with
  | [] -> ((rev cur), None)
  | c :: s' ->
    if N.eqb c sep then ((rev cur), (Some s')) else cut_aux sep s' (c :: cur)

(** val cut : n -> str -> str * str option **)

let cut sep s =
  cut_aux sep s []

(** val join : str -> str list -> str **)

let rec join sep = function
| [] -> []
| x :: l' -> (match l' with
              | [] -> x
              | _ :: _ -> app x (app sep (join sep l')))

(** val trim_left : n list -> str -> str **)

let rec trim_left cut0 s = match s with
| [] -> []
| c :: s' -> if mem c cut0 then trim_left cut0 s' else s

(** val trim_right : n list -> str -> str **)

let trim_right cut0 s =
  rev (trim_left cut0 (rev s))

(** val trim_set : n list -> str -> str **)

let trim_set cut0 s =
  trim_right cut0 (trim_left cut0 s)

(** val trim_prefix1 : n -> str -> str **)

let trim_prefix1 c s = match s with
| [] -> []
| x :: s' -> if N.eqb x c then s' else s

(** val plus_to_space : str -> str **)

let plus_to_space s =
  map (fun c ->
    if N.eqb c (Npos (XI (XI (XO (XI (XO XH))))))
    then Npos (XO (XO (XO (XO (XO XH)))))
    else c) s

(** val rune_lower : n -> n **)

let rune_lower c =
  if is_upper c
  then N.add c (Npos (XO (XO (XO (XO (XO XH))))))
  else if N.eqb c (Npos (XO (XO (XO (XO (XI (XI (XO (XO XH)))))))))
       then Npos (XI (XO (XO (XI (XO (XI XH))))))
       else if N.eqb c (Npos (XO (XI (XO (XI (XO (XI (XO (XO (XI (XO (XO (XO
                 (XO XH))))))))))))))
            then Npos (XI (XI (XO (XI (XO (XI XH))))))
            else c

(** val digits_val : n -> str -> n **)

let digits_val radix s =
  fold_left (fun acc c -> N.add (N.mul acc radix) (hex_val c)) s N0

(** val fmt_fuel : n -> (n -> n) -> nat -> n -> str **)

let rec fmt_fuel radix dig fuel n0 =
  match fuel with
  | O -> []
  | S f ->
    if N.ltb n0 radix
    then (dig n0) :: []
    else app (fmt_fuel radix dig f (N.div n0 radix))
           ((dig (N.modulo n0 radix)) :: [])

(** val itoa : n -> str **)

let itoa n0 =
  fmt_fuel (Npos (XO (XI (XO XH)))) hex_lower (S (N.size_nat n0)) n0

(** val fmt_hex : n -> str **)

let fmt_hex n0 =
  fmt_fuel (Npos (XO (XO (XO (XO XH))))) hex_lower (S (N.size_nat n0)) n0

(** val insert_st : ('a1 -> 'a1 -> bool) -> 'a1 -> 'a1 list -> 'a1 list **)

let rec insert_st lt x l = match l with
| [] -> x :: []
| y :: l' -> if lt y x then y :: (insert_st lt x l') else x :: l

(** val sort_stable : ('a1 -> 'a1 -> bool) -> 'a1 list -> 'a1 list **)

let sort_stable lt l =
  fold_right (insert_st lt) [] l

(** val str_ltb : str -> str -> bool **)

let rec str_ltb a b =
  match a with
  | [] -> (match b with
           | [] -> false
           | _ :: _ -> true)
  | x :: a' ->
    (match b with
     | [] -> false
     | y :: b' ->
       if N.ltb x y then true else if N.ltb y x then false else str_ltb a' b')

type peset = { ab : n; bits : n list }

type hostfun =
| HF_none
| HF_gsb
| HF_sem
| HF_fun of (str -> str)

type cfg = { c_report : bool; c_fail : bool; c_lax : bool; c_collapse : 
             bool; c_acceptInvalid : bool; c_pre : hostfun; c_post : 
             hostfun; c_singlePct : bool; c_allowPathNonBase : bool;
             c_skipDrive : bool; c_special : (str * str) list;
             c_skipTrailSlash : bool; c_latin1 : bool; c_pathSet : peset;
             c_squerySet : peset; c_querySet : peset; c_sfragSet : peset;
             c_fragSet : peset; c_skipEq : bool }

type qsort =
| NoSort
| SortKeys
| SortParameter

type profile = { p_cfg : cfg; p_removeUserInfo : bool; p_removePort : 
                 bool; p_removeFragment : bool; p_sortQuery : qsort;
                 p_repeated : bool; p_defaultScheme : str }

(** val bs_ASCIITabOrNewline : n list **)

let bs_ASCIITabOrNewline =
  (Npos (XI (XO (XO XH)))) :: ((Npos (XO (XI (XO XH)))) :: ((Npos (XI (XO (XI
    XH)))) :: []))

(** val bs_ASCIIAlpha : n list **)

let bs_ASCIIAlpha =
  (Npos (XI (XO (XO (XO (XO (XO XH))))))) :: ((Npos (XO (XI (XO (XO (XO (XO
    XH))))))) :: ((Npos (XI (XI (XO (XO (XO (XO XH))))))) :: ((Npos (XO (XO
    (XI (XO (XO (XO XH))))))) :: ((Npos (XI (XO (XI (XO (XO (XO
    XH))))))) :: ((Npos (XO (XI (XI (XO (XO (XO XH))))))) :: ((Npos (XI (XI
    (XI (XO (XO (XO XH))))))) :: ((Npos (XO (XO (XO (XI (XO (XO
    XH))))))) :: ((Npos (XI (XO (XO (XI (XO (XO XH))))))) :: ((Npos (XO (XI
    (XO (XI (XO (XO XH))))))) :: ((Npos (XI (XI (XO (XI (XO (XO
    XH))))))) :: ((Npos (XO (XO (XI (XI (XO (XO XH))))))) :: ((Npos (XI (XO
    (XI (XI (XO (XO XH))))))) :: ((Npos (XO (XI (XI (XI (XO (XO
    XH))))))) :: ((Npos (XI (XI (XI (XI (XO (XO XH))))))) :: ((Npos (XO (XO
    (XO (XO (XI (XO XH))))))) :: ((Npos (XI (XO (XO (XO (XI (XO
    XH))))))) :: ((Npos (XO (XI (XO (XO (XI (XO XH))))))) :: ((Npos (XI (XI
    (XO (XO (XI (XO XH))))))) :: ((Npos (XO (XO (XI (XO (XI (XO
    XH))))))) :: ((Npos (XI (XO (XI (XO (XI (XO XH))))))) :: ((Npos (XO (XI
    (XI (XO (XI (XO XH))))))) :: ((Npos (XI (XI (XI (XO (XI (XO
    XH))))))) :: ((Npos (XO (XO (XO (XI (XI (XO XH))))))) :: ((Npos (XI (XO
    (XO (XI (XI (XO XH))))))) :: ((Npos (XO (XI (XO (XI (XI (XO
    XH))))))) :: ((Npos (XI (XO (XO (XO (XO (XI XH))))))) :: ((Npos (XO (XI
    (XO (XO (XO (XI XH))))))) :: ((Npos (XI (XI (XO (XO (XO (XI
    XH))))))) :: ((Npos (XO (XO (XI (XO (XO (XI XH))))))) :: ((Npos (XI (XO
    (XI (XO (XO (XI XH))))))) :: ((Npos (XO (XI (XI (XO (XO (XI
    XH))))))) :: ((Npos (XI (XI (XI (XO (XO (XI XH))))))) :: ((Npos (XO (XO
    (XO (XI (XO (XI XH))))))) :: ((Npos (XI (XO (XO (XI (XO (XI
    XH))))))) :: ((Npos (XO (XI (XO (XI (XO (XI XH))))))) :: ((Npos (XI (XI
    (XO (XI (XO (XI XH))))))) :: ((Npos (XO (XO (XI (XI (XO (XI
    XH))))))) :: ((Npos (XI (XO (XI (XI (XO (XI XH))))))) :: ((Npos (XO (XI
    (XI (XI (XO (XI XH))))))) :: ((Npos (XI (XI (XI (XI (XO (XI
    XH))))))) :: ((Npos (XO (XO (XO (XO (XI (XI XH))))))) :: ((Npos (XI (XO
    (XO (XO (XI (XI XH))))))) :: ((Npos (XO (XI (XO (XO (XI (XI
    XH))))))) :: ((Npos (XI (XI (XO (XO (XI (XI XH))))))) :: ((Npos (XO (XO
    (XI (XO (XI (XI XH))))))) :: ((Npos (XI (XO (XI (XO (XI (XI
    XH))))))) :: ((Npos (XO (XI (XI (XO (XI (XI XH))))))) :: ((Npos (XI (XI
    (XI (XO (XI (XI XH))))))) :: ((Npos (XO (XO (XO (XI (XI (XI
    XH))))))) :: ((Npos (XI (XO (XO (XI (XI (XI XH))))))) :: ((Npos (XO (XI
    (XO (XI (XI (XI
    XH))))))) :: [])))))))))))))))))))))))))))))))))))))))))))))))))))

(** val bs_ASCIIDigit : n list **)

let bs_ASCIIDigit =
  (Npos (XO (XO (XO (XO (XI XH)))))) :: ((Npos (XI (XO (XO (XO (XI
    XH)))))) :: ((Npos (XO (XI (XO (XO (XI XH)))))) :: ((Npos (XI (XI (XO (XO
    (XI XH)))))) :: ((Npos (XO (XO (XI (XO (XI XH)))))) :: ((Npos (XI (XO (XI
    (XO (XI XH)))))) :: ((Npos (XO (XI (XI (XO (XI XH)))))) :: ((Npos (XI (XI
    (XI (XO (XI XH)))))) :: ((Npos (XO (XO (XO (XI (XI XH)))))) :: ((Npos (XI
    (XO (XO (XI (XI XH)))))) :: [])))))))))

(** val bs_ASCIIHexDigit : n list **)

let bs_ASCIIHexDigit =
  (Npos (XO (XO (XO (XO (XI XH)))))) :: ((Npos (XI (XO (XO (XO (XI
    XH)))))) :: ((Npos (XO (XI (XO (XO (XI XH)))))) :: ((Npos (XI (XI (XO (XO
    (XI XH)))))) :: ((Npos (XO (XO (XI (XO (XI XH)))))) :: ((Npos (XI (XO (XI
    (XO (XI XH)))))) :: ((Npos (XO (XI (XI (XO (XI XH)))))) :: ((Npos (XI (XI
    (XI (XO (XI XH)))))) :: ((Npos (XO (XO (XO (XI (XI XH)))))) :: ((Npos (XI
    (XO (XO (XI (XI XH)))))) :: ((Npos (XI (XO (XO (XO (XO (XO
    XH))))))) :: ((Npos (XO (XI (XO (XO (XO (XO XH))))))) :: ((Npos (XI (XI
    (XO (XO (XO (XO XH))))))) :: ((Npos (XO (XO (XI (XO (XO (XO
    XH))))))) :: ((Npos (XI (XO (XI (XO (XO (XO XH))))))) :: ((Npos (XO (XI
    (XI (XO (XO (XO XH))))))) :: ((Npos (XI (XO (XO (XO (XO (XI
    XH))))))) :: ((Npos (XO (XI (XO (XO (XO (XI XH))))))) :: ((Npos (XI (XI
    (XO (XO (XO (XI XH))))))) :: ((Npos (XO (XO (XI (XO (XO (XI
    XH))))))) :: ((Npos (XI (XO (XI (XO (XO (XI XH))))))) :: ((Npos (XO (XI
    (XI (XO (XO (XI XH))))))) :: [])))))))))))))))))))))

(** val bs_ASCIIAlphanumeric : n list **)

let bs_ASCIIAlphanumeric =
  (Npos (XO (XO (XO (XO (XI XH)))))) :: ((Npos (XI (XO (XO (XO (XI
    XH)))))) :: ((Npos (XO (XI (XO (XO (XI XH)))))) :: ((Npos (XI (XI (XO (XO
    (XI XH)))))) :: ((Npos (XO (XO (XI (XO (XI XH)))))) :: ((Npos (XI (XO (XI
    (XO (XI XH)))))) :: ((Npos (XO (XI (XI (XO (XI XH)))))) :: ((Npos (XI (XI
    (XI (XO (XI XH)))))) :: ((Npos (XO (XO (XO (XI (XI XH)))))) :: ((Npos (XI
    (XO (XO (XI (XI XH)))))) :: ((Npos (XI (XO (XO (XO (XO (XO
    XH))))))) :: ((Npos (XO (XI (XO (XO (XO (XO XH))))))) :: ((Npos (XI (XI
    (XO (XO (XO (XO XH))))))) :: ((Npos (XO (XO (XI (XO (XO (XO
    XH))))))) :: ((Npos (XI (XO (XI (XO (XO (XO XH))))))) :: ((Npos (XO (XI
    (XI (XO (XO (XO XH))))))) :: ((Npos (XI (XI (XI (XO (XO (XO
    XH))))))) :: ((Npos (XO (XO (XO (XI (XO (XO XH))))))) :: ((Npos (XI (XO
    (XO (XI (XO (XO XH))))))) :: ((Npos (XO (XI (XO (XI (XO (XO
    XH))))))) :: ((Npos (XI (XI (XO (XI (XO (XO XH))))))) :: ((Npos (XO (XO
    (XI (XI (XO (XO XH))))))) :: ((Npos (XI (XO (XI (XI (XO (XO
    XH))))))) :: ((Npos (XO (XI (XI (XI (XO (XO XH))))))) :: ((Npos (XI (XI
    (XI (XI (XO (XO XH))))))) :: ((Npos (XO (XO (XO (XO (XI (XO
    XH))))))) :: ((Npos (XI (XO (XO (XO (XI (XO XH))))))) :: ((Npos (XO (XI
    (XO (XO (XI (XO XH))))))) :: ((Npos (XI (XI (XO (XO (XI (XO
    XH))))))) :: ((Npos (XO (XO (XI (XO (XI (XO XH))))))) :: ((Npos (XI (XO
    (XI (XO (XI (XO XH))))))) :: ((Npos (XO (XI (XI (XO (XI (XO
    XH))))))) :: ((Npos (XI (XI (XI (XO (XI (XO XH))))))) :: ((Npos (XO (XO
    (XO (XI (XI (XO XH))))))) :: ((Npos (XI (XO (XO (XI (XI (XO
    XH))))))) :: ((Npos (XO (XI (XO (XI (XI (XO XH))))))) :: ((Npos (XI (XO
    (XO (XO (XO (XI XH))))))) :: ((Npos (XO (XI (XO (XO (XO (XI
    XH))))))) :: ((Npos (XI (XI (XO (XO (XO (XI XH))))))) :: ((Npos (XO (XO
    (XI (XO (XO (XI XH))))))) :: ((Npos (XI (XO (XI (XO (XO (XI
    XH))))))) :: ((Npos (XO (XI (XI (XO (XO (XI XH))))))) :: ((Npos (XI (XI
    (XI (XO (XO (XI XH))))))) :: ((Npos (XO (XO (XO (XI (XO (XI
    XH))))))) :: ((Npos (XI (XO (XO (XI (XO (XI XH))))))) :: ((Npos (XO (XI
    (XO (XI (XO (XI XH))))))) :: ((Npos (XI (XI (XO (XI (XO (XI
    XH))))))) :: ((Npos (XO (XO (XI (XI (XO (XI XH))))))) :: ((Npos (XI (XO
    (XI (XI (XO (XI XH))))))) :: ((Npos (XO (XI (XI (XI (XO (XI
    XH))))))) :: ((Npos (XI (XI (XI (XI (XO (XI XH))))))) :: ((Npos (XO (XO
    (XO (XO (XI (XI XH))))))) :: ((Npos (XI (XO (XO (XO (XI (XI
    XH))))))) :: ((Npos (XO (XI (XO (XO (XI (XI XH))))))) :: ((Npos (XI (XI
    (XO (XO (XI (XI XH))))))) :: ((Npos (XO (XO (XI (XO (XI (XI
    XH))))))) :: ((Npos (XI (XO (XI (XO (XI (XI XH))))))) :: ((Npos (XO (XI
    (XI (XO (XI (XI XH))))))) :: ((Npos (XI (XI (XI (XO (XI (XI
    XH))))))) :: ((Npos (XO (XO (XO (XI (XI (XI XH))))))) :: ((Npos (XI (XO
    (XO (XI (XI (XI XH))))))) :: ((Npos (XO (XI (XO (XI (XI (XI
    XH))))))) :: [])))))))))))))))))))))))))))))))))))))))))))))))))))))))))))))

(** val bs_ForbiddenHostCodePoint : n list **)

let bs_ForbiddenHostCodePoint =
  N0 :: ((Npos (XI (XO (XO XH)))) :: ((Npos (XO (XI (XO XH)))) :: ((Npos (XI
    (XO (XI XH)))) :: ((Npos (XO (XO (XO (XO (XO XH)))))) :: ((Npos (XI (XI
    (XO (XO (XO XH)))))) :: ((Npos (XI (XI (XI (XI (XO XH)))))) :: ((Npos (XO
    (XI (XO (XI (XI XH)))))) :: ((Npos (XO (XO (XI (XI (XI XH)))))) :: ((Npos
    (XO (XI (XI (XI (XI XH)))))) :: ((Npos (XI (XI (XI (XI (XI
    XH)))))) :: ((Npos (XO (XO (XO (XO (XO (XO XH))))))) :: ((Npos (XI (XI
    (XO (XI (XI (XO XH))))))) :: ((Npos (XO (XO (XI (XI (XI (XO
    XH))))))) :: ((Npos (XI (XO (XI (XI (XI (XO XH))))))) :: ((Npos (XO (XI
    (XI (XI (XI (XO XH))))))) :: ((Npos (XO (XO (XI (XI (XI (XI
    XH))))))) :: []))))))))))))))))

(** val bs_ForbiddenDomainCodePoint : n list **)

let bs_ForbiddenDomainCodePoint =
  N0 :: ((Npos XH) :: ((Npos (XO XH)) :: ((Npos (XI XH)) :: ((Npos (XO (XO
    XH))) :: ((Npos (XI (XO XH))) :: ((Npos (XO (XI XH))) :: ((Npos (XI (XI
    XH))) :: ((Npos (XO (XO (XO XH)))) :: ((Npos (XI (XO (XO XH)))) :: ((Npos
    (XO (XI (XO XH)))) :: ((Npos (XI (XI (XO XH)))) :: ((Npos (XO (XO (XI
    XH)))) :: ((Npos (XI (XO (XI XH)))) :: ((Npos (XO (XI (XI
    XH)))) :: ((Npos (XI (XI (XI XH)))) :: ((Npos (XO (XO (XO (XO
    XH))))) :: ((Npos (XI (XO (XO (XO XH))))) :: ((Npos (XO (XI (XO (XO
    XH))))) :: ((Npos (XI (XI (XO (XO XH))))) :: ((Npos (XO (XO (XI (XO
    XH))))) :: ((Npos (XI (XO (XI (XO XH))))) :: ((Npos (XO (XI (XI (XO
    XH))))) :: ((Npos (XI (XI (XI (XO XH))))) :: ((Npos (XO (XO (XO (XI
    XH))))) :: ((Npos (XI (XO (XO (XI XH))))) :: ((Npos (XO (XI (XO (XI
    XH))))) :: ((Npos (XI (XI (XO (XI XH))))) :: ((Npos (XO (XO (XI (XI
    XH))))) :: ((Npos (XI (XO (XI (XI XH))))) :: ((Npos (XO (XI (XI (XI
    XH))))) :: ((Npos (XI (XI (XI (XI XH))))) :: ((Npos (XO (XO (XO (XO (XO
    XH)))))) :: ((Npos (XI (XI (XO (XO (XO XH)))))) :: ((Npos (XI (XO (XI (XO
    (XO XH)))))) :: ((Npos (XI (XI (XI (XI (XO XH)))))) :: ((Npos (XO (XI (XO
    (XI (XI XH)))))) :: ((Npos (XO (XO (XI (XI (XI XH)))))) :: ((Npos (XO (XI
    (XI (XI (XI XH)))))) :: ((Npos (XI (XI (XI (XI (XI XH)))))) :: ((Npos (XO
    (XO (XO (XO (XO (XO XH))))))) :: ((Npos (XI (XI (XO (XI (XI (XO
    XH))))))) :: ((Npos (XO (XO (XI (XI (XI (XO XH))))))) :: ((Npos (XI (XO
    (XI (XI (XI (XO XH))))))) :: ((Npos (XO (XI (XI (XI (XI (XO
    XH))))))) :: ((Npos (XO (XO (XI (XI (XI (XI XH))))))) :: ((Npos (XI (XI
    (XI (XI (XI (XI
    XH))))))) :: []))))))))))))))))))))))))))))))))))))))))))))))

(** val bs_someURLCodePoints : n list **)

let bs_someURLCodePoints =
  (Npos (XO (XO (XI (XO (XO XH)))))) :: ((Npos (XO (XI (XI (XO (XO
    XH)))))) :: ((Npos (XI (XI (XI (XO (XO XH)))))) :: ((Npos (XO (XO (XO (XI
    (XO XH)))))) :: ((Npos (XI (XO (XO (XI (XO XH)))))) :: ((Npos (XO (XI (XO
    (XI (XO XH)))))) :: ((Npos (XI (XI (XO (XI (XO XH)))))) :: ((Npos (XO (XO
    (XI (XI (XO XH)))))) :: ((Npos (XI (XO (XI (XI (XO XH)))))) :: ((Npos (XO
    (XI (XI (XI (XO XH)))))) :: ((Npos (XI (XI (XI (XI (XO XH)))))) :: ((Npos
    (XO (XI (XO (XI (XI XH)))))) :: ((Npos (XI (XI (XO (XI (XI
    XH)))))) :: ((Npos (XI (XO (XI (XI (XI XH)))))) :: ((Npos (XI (XI (XI (XI
    (XI XH)))))) :: ((Npos (XO (XO (XO (XO (XO (XO XH))))))) :: ((Npos (XI
    (XI (XI (XI (XI (XO XH))))))) :: ((Npos (XO (XI (XI (XI (XI (XI
    XH))))))) :: [])))))))))))))))))

(** val pes_C0 : peset **)

let pes_C0 =
  { ab = (Npos (XO (XO (XO (XO (XO XH)))))); bits = [] }

(** val pes_C0OrSpace : peset **)

let pes_C0OrSpace =
  { ab = (Npos (XI (XO (XO (XO (XO XH)))))); bits = [] }

(** val pes_Fragment : peset **)

let pes_Fragment =
  { ab = (Npos (XI (XO (XO (XO (XO XH)))))); bits = ((Npos (XO (XI (XO (XO
    (XO XH)))))) :: ((Npos (XO (XO (XI (XI (XI XH)))))) :: ((Npos (XO (XI (XI
    (XI (XI XH)))))) :: ((Npos (XO (XO (XO (XO (XO (XI XH))))))) :: [])))) }

(** val pes_Query : peset **)

let pes_Query =
  { ab = (Npos (XI (XO (XO (XO (XO XH)))))); bits = ((Npos (XO (XI (XO (XO
    (XO XH)))))) :: ((Npos (XI (XI (XO (XO (XO XH)))))) :: ((Npos (XO (XO (XI
    (XI (XI XH)))))) :: ((Npos (XO (XI (XI (XI (XI XH)))))) :: [])))) }

(** val pes_SpecialQuery : peset **)

let pes_SpecialQuery =
  { ab = (Npos (XI (XO (XO (XO (XO XH)))))); bits = ((Npos (XO (XI (XO (XO
    (XO XH)))))) :: ((Npos (XI (XI (XO (XO (XO XH)))))) :: ((Npos (XI (XI (XI
    (XO (XO XH)))))) :: ((Npos (XO (XO (XI (XI (XI XH)))))) :: ((Npos (XO (XI
    (XI (XI (XI XH)))))) :: []))))) }

(** val pes_Path : peset **)

let pes_Path =
  { ab = (Npos (XI (XO (XO (XO (XO XH)))))); bits = ((Npos (XO (XI (XO (XO
    (XO XH)))))) :: ((Npos (XI (XI (XO (XO (XO XH)))))) :: ((Npos (XO (XO (XI
    (XI (XI XH)))))) :: ((Npos (XO (XI (XI (XI (XI XH)))))) :: ((Npos (XI (XI
    (XI (XI (XI XH)))))) :: ((Npos (XO (XO (XO (XO (XO (XI
    XH))))))) :: ((Npos (XI (XI (XO (XI (XI (XI XH))))))) :: ((Npos (XI (XO
    (XI (XI (XI (XI XH))))))) :: [])))))))) }

(** val pes_UserInfo : peset **)

let pes_UserInfo =
  { ab = (Npos (XI (XO (XO (XO (XO XH)))))); bits = ((Npos (XO (XI (XO (XO
    (XO XH)))))) :: ((Npos (XI (XI (XO (XO (XO XH)))))) :: ((Npos (XI (XI (XI
    (XI (XO XH)))))) :: ((Npos (XO (XI (XO (XI (XI XH)))))) :: ((Npos (XI (XI
    (XO (XI (XI XH)))))) :: ((Npos (XO (XO (XI (XI (XI XH)))))) :: ((Npos (XI
    (XO (XI (XI (XI XH)))))) :: ((Npos (XO (XI (XI (XI (XI XH)))))) :: ((Npos
    (XI (XI (XI (XI (XI XH)))))) :: ((Npos (XO (XO (XO (XO (XO (XO
    XH))))))) :: ((Npos (XI (XI (XO (XI (XI (XO XH))))))) :: ((Npos (XO (XO
    (XI (XI (XI (XO XH))))))) :: ((Npos (XI (XO (XI (XI (XI (XO
    XH))))))) :: ((Npos (XO (XI (XI (XI (XI (XO XH))))))) :: ((Npos (XO (XO
    (XO (XO (XO (XI XH))))))) :: ((Npos (XI (XI (XO (XI (XI (XI
    XH))))))) :: ((Npos (XO (XO (XI (XI (XI (XI XH))))))) :: ((Npos (XI (XO
    (XI (XI (XI (XI XH))))))) :: [])))))))))))))))))) }

(** val pes_Host : peset **)

let pes_Host =
  { ab = (Npos (XI (XO (XO (XO (XO XH)))))); bits = ((Npos (XI (XI (XO (XO
    (XO XH)))))) :: []) }

(** val pes_LaxPath : peset **)

let pes_LaxPath =
  { ab = (Npos (XI (XO (XO (XO (XO XH)))))); bits = ((Npos (XO (XI (XO (XO
    (XO XH)))))) :: ((Npos (XI (XI (XO (XO (XO XH)))))) :: ((Npos (XI (XI (XI
    (XI (XI XH)))))) :: ((Npos (XO (XO (XO (XO (XO (XI XH))))))) :: ((Npos
    (XI (XI (XO (XI (XI (XI XH))))))) :: ((Npos (XI (XO (XI (XI (XI (XI
    XH))))))) :: [])))))) }

(** val pes_LaxQuery : peset **)

let pes_LaxQuery =
  { ab = (Npos (XI (XO (XO (XO (XO XH)))))); bits = ((Npos (XI (XI (XO (XO
    (XO XH)))))) :: ((Npos (XO (XO (XI (XI (XI XH)))))) :: ((Npos (XO (XI (XI
    (XI (XI XH)))))) :: []))) }

(** val pes_RepeatedQuery : peset **)

let pes_RepeatedQuery =
  { ab = (Npos (XI (XO (XO (XO (XO XH)))))); bits = ((Npos (XI (XI (XO (XO
    (XO XH)))))) :: ((Npos (XI (XO (XI (XO (XO XH)))))) :: ((Npos (XO (XI (XI
    (XO (XO XH)))))) :: ((Npos (XI (XO (XI (XI (XI XH)))))) :: [])))) }

(** val default_cfg : cfg **)

let default_cfg =
  { c_report = false; c_fail = false; c_lax = false; c_collapse = false;
    c_acceptInvalid = false; c_pre = HF_none; c_post = HF_none; c_singlePct =
    false; c_allowPathNonBase = false; c_skipDrive = false; c_special =
    ((((Npos (XO (XI (XI (XO (XO (XI XH))))))) :: ((Npos (XI (XO (XO (XI (XO
    (XI XH))))))) :: ((Npos (XO (XO (XI (XI (XO (XI XH))))))) :: ((Npos (XI
    (XO (XI (XO (XO (XI XH))))))) :: [])))), []) :: ((((Npos (XO (XI (XI (XO
    (XO (XI XH))))))) :: ((Npos (XO (XO (XI (XO (XI (XI XH))))))) :: ((Npos
    (XO (XO (XO (XO (XI (XI XH))))))) :: []))), ((Npos (XO (XI (XO (XO (XI
    XH)))))) :: ((Npos (XI (XO (XO (XO (XI XH)))))) :: []))) :: ((((Npos (XO
    (XO (XO (XI (XO (XI XH))))))) :: ((Npos (XO (XO (XI (XO (XI (XI
    XH))))))) :: ((Npos (XO (XO (XI (XO (XI (XI XH))))))) :: ((Npos (XO (XO
    (XO (XO (XI (XI XH))))))) :: [])))), ((Npos (XO (XO (XO (XI (XI
    XH)))))) :: ((Npos (XO (XO (XO (XO (XI XH)))))) :: []))) :: ((((Npos (XO
    (XO (XO (XI (XO (XI XH))))))) :: ((Npos (XO (XO (XI (XO (XI (XI
    XH))))))) :: ((Npos (XO (XO (XI (XO (XI (XI XH))))))) :: ((Npos (XO (XO
    (XO (XO (XI (XI XH))))))) :: ((Npos (XI (XI (XO (XO (XI (XI
    XH))))))) :: []))))), ((Npos (XO (XO (XI (XO (XI XH)))))) :: ((Npos (XO
    (XO (XI (XO (XI XH)))))) :: ((Npos (XI (XI (XO (XO (XI
    XH)))))) :: [])))) :: ((((Npos (XI (XI (XI (XO (XI (XI
    XH))))))) :: ((Npos (XI (XI (XO (XO (XI (XI XH))))))) :: [])), ((Npos (XO
    (XO (XO (XI (XI XH)))))) :: ((Npos (XO (XO (XO (XO (XI
    XH)))))) :: []))) :: ((((Npos (XI (XI (XI (XO (XI (XI XH))))))) :: ((Npos
    (XI (XI (XO (XO (XI (XI XH))))))) :: ((Npos (XI (XI (XO (XO (XI (XI
    XH))))))) :: []))), ((Npos (XO (XO (XI (XO (XI XH)))))) :: ((Npos (XO (XO
    (XI (XO (XI XH)))))) :: ((Npos (XI (XI (XO (XO (XI
    XH)))))) :: [])))) :: [])))))); c_skipTrailSlash = false; c_latin1 =
    false; c_pathSet = { ab = (Npos (XI (XO (XO (XO (XO XH)))))); bits =
    ((Npos (XO (XI (XO (XO (XO XH)))))) :: ((Npos (XI (XI (XO (XO (XO
    XH)))))) :: ((Npos (XO (XO (XI (XI (XI XH)))))) :: ((Npos (XO (XI (XI (XI
    (XI XH)))))) :: ((Npos (XI (XI (XI (XI (XI XH)))))) :: ((Npos (XO (XO (XO
    (XO (XO (XI XH))))))) :: ((Npos (XI (XI (XO (XI (XI (XI
    XH))))))) :: ((Npos (XI (XO (XI (XI (XI (XI XH))))))) :: [])))))))) };
    c_squerySet = { ab = (Npos (XI (XO (XO (XO (XO XH)))))); bits = ((Npos
    (XO (XI (XO (XO (XO XH)))))) :: ((Npos (XI (XI (XO (XO (XO
    XH)))))) :: ((Npos (XI (XI (XI (XO (XO XH)))))) :: ((Npos (XO (XO (XI (XI
    (XI XH)))))) :: ((Npos (XO (XI (XI (XI (XI XH)))))) :: []))))) };
    c_querySet = { ab = (Npos (XI (XO (XO (XO (XO XH)))))); bits = ((Npos (XO
    (XI (XO (XO (XO XH)))))) :: ((Npos (XI (XI (XO (XO (XO XH)))))) :: ((Npos
    (XO (XO (XI (XI (XI XH)))))) :: ((Npos (XO (XI (XI (XI (XI
    XH)))))) :: [])))) }; c_sfragSet = { ab = (Npos (XI (XO (XO (XO (XO
    XH)))))); bits = ((Npos (XO (XI (XO (XO (XO XH)))))) :: ((Npos (XO (XO
    (XI (XI (XI XH)))))) :: ((Npos (XO (XI (XI (XI (XI XH)))))) :: ((Npos (XO
    (XO (XO (XO (XO (XI XH))))))) :: [])))) }; c_fragSet = { ab = (Npos (XI
    (XO (XO (XO (XO XH)))))); bits = ((Npos (XO (XI (XO (XO (XO
    XH)))))) :: ((Npos (XO (XO (XI (XI (XI XH)))))) :: ((Npos (XO (XI (XI (XI
    (XI XH)))))) :: ((Npos (XO (XO (XO (XO (XO (XI XH))))))) :: [])))) };
    c_skipEq = false }

(** val prof_none : profile **)

let prof_none =
  { p_cfg = { c_report = false; c_fail = false; c_lax = false; c_collapse =
    false; c_acceptInvalid = false; c_pre = HF_none; c_post = HF_none;
    c_singlePct = false; c_allowPathNonBase = false; c_skipDrive = false;
    c_special = ((((Npos (XO (XI (XI (XO (XO (XI XH))))))) :: ((Npos (XI (XO
    (XO (XI (XO (XI XH))))))) :: ((Npos (XO (XO (XI (XI (XO (XI
    XH))))))) :: ((Npos (XI (XO (XI (XO (XO (XI XH))))))) :: [])))),
    []) :: ((((Npos (XO (XI (XI (XO (XO (XI XH))))))) :: ((Npos (XO (XO (XI
    (XO (XI (XI XH))))))) :: ((Npos (XO (XO (XO (XO (XI (XI
    XH))))))) :: []))), ((Npos (XO (XI (XO (XO (XI XH)))))) :: ((Npos (XI (XO
    (XO (XO (XI XH)))))) :: []))) :: ((((Npos (XO (XO (XO (XI (XO (XI
    XH))))))) :: ((Npos (XO (XO (XI (XO (XI (XI XH))))))) :: ((Npos (XO (XO
    (XI (XO (XI (XI XH))))))) :: ((Npos (XO (XO (XO (XO (XI (XI
    XH))))))) :: [])))), ((Npos (XO (XO (XO (XI (XI XH)))))) :: ((Npos (XO
    (XO (XO (XO (XI XH)))))) :: []))) :: ((((Npos (XO (XO (XO (XI (XO (XI
    XH))))))) :: ((Npos (XO (XO (XI (XO (XI (XI XH))))))) :: ((Npos (XO (XO
    (XI (XO (XI (XI XH))))))) :: ((Npos (XO (XO (XO (XO (XI (XI
    XH))))))) :: ((Npos (XI (XI (XO (XO (XI (XI XH))))))) :: []))))), ((Npos
    (XO (XO (XI (XO (XI XH)))))) :: ((Npos (XO (XO (XI (XO (XI
    XH)))))) :: ((Npos (XI (XI (XO (XO (XI XH)))))) :: [])))) :: ((((Npos (XI
    (XI (XI (XO (XI (XI XH))))))) :: ((Npos (XI (XI (XO (XO (XI (XI
    XH))))))) :: [])), ((Npos (XO (XO (XO (XI (XI XH)))))) :: ((Npos (XO (XO
    (XO (XO (XI XH)))))) :: []))) :: ((((Npos (XI (XI (XI (XO (XI (XI
    XH))))))) :: ((Npos (XI (XI (XO (XO (XI (XI XH))))))) :: ((Npos (XI (XI
    (XO (XO (XI (XI XH))))))) :: []))), ((Npos (XO (XO (XI (XO (XI
    XH)))))) :: ((Npos (XO (XO (XI (XO (XI XH)))))) :: ((Npos (XI (XI (XO (XO
    (XI XH)))))) :: [])))) :: [])))))); c_skipTrailSlash = false; c_latin1 =
    false; c_pathSet = { ab = (Npos (XI (XO (XO (XO (XO XH)))))); bits =
    ((Npos (XO (XI (XO (XO (XO XH)))))) :: ((Npos (XI (XI (XO (XO (XO
    XH)))))) :: ((Npos (XO (XO (XI (XI (XI XH)))))) :: ((Npos (XO (XI (XI (XI
    (XI XH)))))) :: ((Npos (XI (XI (XI (XI (XI XH)))))) :: ((Npos (XO (XO (XO
    (XO (XO (XI XH))))))) :: ((Npos (XI (XI (XO (XI (XI (XI
    XH))))))) :: ((Npos (XI (XO (XI (XI (XI (XI XH))))))) :: [])))))))) };
    c_squerySet = { ab = (Npos (XI (XO (XO (XO (XO XH)))))); bits = ((Npos
    (XO (XI (XO (XO (XO XH)))))) :: ((Npos (XI (XI (XO (XO (XO
    XH)))))) :: ((Npos (XI (XI (XI (XO (XO XH)))))) :: ((Npos (XO (XO (XI (XI
    (XI XH)))))) :: ((Npos (XO (XI (XI (XI (XI XH)))))) :: []))))) };
    c_querySet = { ab = (Npos (XI (XO (XO (XO (XO XH)))))); bits = ((Npos (XO
    (XI (XO (XO (XO XH)))))) :: ((Npos (XI (XI (XO (XO (XO XH)))))) :: ((Npos
    (XO (XO (XI (XI (XI XH)))))) :: ((Npos (XO (XI (XI (XI (XI
    XH)))))) :: [])))) }; c_sfragSet = { ab = (Npos (XI (XO (XO (XO (XO
    XH)))))); bits = ((Npos (XO (XI (XO (XO (XO XH)))))) :: ((Npos (XO (XO
    (XI (XI (XI XH)))))) :: ((Npos (XO (XI (XI (XI (XI XH)))))) :: ((Npos (XO
    (XO (XO (XO (XO (XI XH))))))) :: [])))) }; c_fragSet = { ab = (Npos (XI
    (XO (XO (XO (XO XH)))))); bits = ((Npos (XO (XI (XO (XO (XO
    XH)))))) :: ((Npos (XO (XO (XI (XI (XI XH)))))) :: ((Npos (XO (XI (XI (XI
    (XI XH)))))) :: ((Npos (XO (XO (XO (XO (XO (XI XH))))))) :: [])))) };
    c_skipEq = false }; p_removeUserInfo = false; p_removePort = false;
    p_removeFragment = false; p_sortQuery = NoSort; p_repeated = false;
    p_defaultScheme = [] }

(** val prof_WhatWg : profile **)

let prof_WhatWg =
  { p_cfg = { c_report = false; c_fail = false; c_lax = false; c_collapse =
    false; c_acceptInvalid = false; c_pre = HF_none; c_post = HF_none;
    c_singlePct = false; c_allowPathNonBase = false; c_skipDrive = false;
    c_special = ((((Npos (XO (XI (XI (XO (XO (XI XH))))))) :: ((Npos (XI (XO
    (XO (XI (XO (XI XH))))))) :: ((Npos (XO (XO (XI (XI (XO (XI
    XH))))))) :: ((Npos (XI (XO (XI (XO (XO (XI XH))))))) :: [])))),
    []) :: ((((Npos (XO (XI (XI (XO (XO (XI XH))))))) :: ((Npos (XO (XO (XI
    (XO (XI (XI XH))))))) :: ((Npos (XO (XO (XO (XO (XI (XI
    XH))))))) :: []))), ((Npos (XO (XI (XO (XO (XI XH)))))) :: ((Npos (XI (XO
    (XO (XO (XI XH)))))) :: []))) :: ((((Npos (XO (XO (XO (XI (XO (XI
    XH))))))) :: ((Npos (XO (XO (XI (XO (XI (XI XH))))))) :: ((Npos (XO (XO
    (XI (XO (XI (XI XH))))))) :: ((Npos (XO (XO (XO (XO (XI (XI
    XH))))))) :: [])))), ((Npos (XO (XO (XO (XI (XI XH)))))) :: ((Npos (XO
    (XO (XO (XO (XI XH)))))) :: []))) :: ((((Npos (XO (XO (XO (XI (XO (XI
    XH))))))) :: ((Npos (XO (XO (XI (XO (XI (XI XH))))))) :: ((Npos (XO (XO
    (XI (XO (XI (XI XH))))))) :: ((Npos (XO (XO (XO (XO (XI (XI
    XH))))))) :: ((Npos (XI (XI (XO (XO (XI (XI XH))))))) :: []))))), ((Npos
    (XO (XO (XI (XO (XI XH)))))) :: ((Npos (XO (XO (XI (XO (XI
    XH)))))) :: ((Npos (XI (XI (XO (XO (XI XH)))))) :: [])))) :: ((((Npos (XI
    (XI (XI (XO (XI (XI XH))))))) :: ((Npos (XI (XI (XO (XO (XI (XI
    XH))))))) :: [])), ((Npos (XO (XO (XO (XI (XI XH)))))) :: ((Npos (XO (XO
    (XO (XO (XI XH)))))) :: []))) :: ((((Npos (XI (XI (XI (XO (XI (XI
    XH))))))) :: ((Npos (XI (XI (XO (XO (XI (XI XH))))))) :: ((Npos (XI (XI
    (XO (XO (XI (XI XH))))))) :: []))), ((Npos (XO (XO (XI (XO (XI
    XH)))))) :: ((Npos (XO (XO (XI (XO (XI XH)))))) :: ((Npos (XI (XI (XO (XO
    (XI XH)))))) :: [])))) :: [])))))); c_skipTrailSlash = false; c_latin1 =
    false; c_pathSet = { ab = (Npos (XI (XO (XO (XO (XO XH)))))); bits =
    ((Npos (XO (XI (XO (XO (XO XH)))))) :: ((Npos (XI (XI (XO (XO (XO
    XH)))))) :: ((Npos (XO (XO (XI (XI (XI XH)))))) :: ((Npos (XO (XI (XI (XI
    (XI XH)))))) :: ((Npos (XI (XI (XI (XI (XI XH)))))) :: ((Npos (XO (XO (XO
    (XO (XO (XI XH))))))) :: ((Npos (XI (XI (XO (XI (XI (XI
    XH))))))) :: ((Npos (XI (XO (XI (XI (XI (XI XH))))))) :: [])))))))) };
    c_squerySet = { ab = (Npos (XI (XO (XO (XO (XO XH)))))); bits = ((Npos
    (XO (XI (XO (XO (XO XH)))))) :: ((Npos (XI (XI (XO (XO (XO
    XH)))))) :: ((Npos (XI (XI (XI (XO (XO XH)))))) :: ((Npos (XO (XO (XI (XI
    (XI XH)))))) :: ((Npos (XO (XI (XI (XI (XI XH)))))) :: []))))) };
    c_querySet = { ab = (Npos (XI (XO (XO (XO (XO XH)))))); bits = ((Npos (XO
    (XI (XO (XO (XO XH)))))) :: ((Npos (XI (XI (XO (XO (XO XH)))))) :: ((Npos
    (XO (XO (XI (XI (XI XH)))))) :: ((Npos (XO (XI (XI (XI (XI
    XH)))))) :: [])))) }; c_sfragSet = { ab = (Npos (XI (XO (XO (XO (XO
    XH)))))); bits = ((Npos (XO (XI (XO (XO (XO XH)))))) :: ((Npos (XO (XO
    (XI (XI (XI XH)))))) :: ((Npos (XO (XI (XI (XI (XI XH)))))) :: ((Npos (XO
    (XO (XO (XO (XO (XI XH))))))) :: [])))) }; c_fragSet = { ab = (Npos (XI
    (XO (XO (XO (XO XH)))))); bits = ((Npos (XO (XI (XO (XO (XO
    XH)))))) :: ((Npos (XO (XO (XI (XI (XI XH)))))) :: ((Npos (XO (XI (XI (XI
    (XI XH)))))) :: ((Npos (XO (XO (XO (XO (XO (XI XH))))))) :: [])))) };
    c_skipEq = false }; p_removeUserInfo = false; p_removePort = false;
    p_removeFragment = false; p_sortQuery = NoSort; p_repeated = false;
    p_defaultScheme = [] }

(** val prof_WhatWgSortQuery : profile **)

let prof_WhatWgSortQuery =
  { p_cfg = { c_report = false; c_fail = false; c_lax = false; c_collapse =
    false; c_acceptInvalid = false; c_pre = HF_none; c_post = HF_none;
    c_singlePct = false; c_allowPathNonBase = false; c_skipDrive = false;
    c_special = ((((Npos (XO (XI (XI (XO (XO (XI XH))))))) :: ((Npos (XI (XO
    (XO (XI (XO (XI XH))))))) :: ((Npos (XO (XO (XI (XI (XO (XI
    XH))))))) :: ((Npos (XI (XO (XI (XO (XO (XI XH))))))) :: [])))),
    []) :: ((((Npos (XO (XI (XI (XO (XO (XI XH))))))) :: ((Npos (XO (XO (XI
    (XO (XI (XI XH))))))) :: ((Npos (XO (XO (XO (XO (XI (XI
    XH))))))) :: []))), ((Npos (XO (XI (XO (XO (XI XH)))))) :: ((Npos (XI (XO
    (XO (XO (XI XH)))))) :: []))) :: ((((Npos (XO (XO (XO (XI (XO (XI
    XH))))))) :: ((Npos (XO (XO (XI (XO (XI (XI XH))))))) :: ((Npos (XO (XO
    (XI (XO (XI (XI XH))))))) :: ((Npos (XO (XO (XO (XO (XI (XI
    XH))))))) :: [])))), ((Npos (XO (XO (XO (XI (XI XH)))))) :: ((Npos (XO
    (XO (XO (XO (XI XH)))))) :: []))) :: ((((Npos (XO (XO (XO (XI (XO (XI
    XH))))))) :: ((Npos (XO (XO (XI (XO (XI (XI XH))))))) :: ((Npos (XO (XO
    (XI (XO (XI (XI XH))))))) :: ((Npos (XO (XO (XO (XO (XI (XI
    XH))))))) :: ((Npos (XI (XI (XO (XO (XI (XI XH))))))) :: []))))), ((Npos
    (XO (XO (XI (XO (XI XH)))))) :: ((Npos (XO (XO (XI (XO (XI
    XH)))))) :: ((Npos (XI (XI (XO (XO (XI XH)))))) :: [])))) :: ((((Npos (XI
    (XI (XI (XO (XI (XI XH))))))) :: ((Npos (XI (XI (XO (XO (XI (XI
    XH))))))) :: [])), ((Npos (XO (XO (XO (XI (XI XH)))))) :: ((Npos (XO (XO
    (XO (XO (XI XH)))))) :: []))) :: ((((Npos (XI (XI (XI (XO (XI (XI
    XH))))))) :: ((Npos (XI (XI (XO (XO (XI (XI XH))))))) :: ((Npos (XI (XI
    (XO (XO (XI (XI XH))))))) :: []))), ((Npos (XO (XO (XI (XO (XI
    XH)))))) :: ((Npos (XO (XO (XI (XO (XI XH)))))) :: ((Npos (XI (XI (XO (XO
    (XI XH)))))) :: [])))) :: [])))))); c_skipTrailSlash = false; c_latin1 =
    false; c_pathSet = { ab = (Npos (XI (XO (XO (XO (XO XH)))))); bits =
    ((Npos (XO (XI (XO (XO (XO XH)))))) :: ((Npos (XI (XI (XO (XO (XO
    XH)))))) :: ((Npos (XO (XO (XI (XI (XI XH)))))) :: ((Npos (XO (XI (XI (XI
    (XI XH)))))) :: ((Npos (XI (XI (XI (XI (XI XH)))))) :: ((Npos (XO (XO (XO
    (XO (XO (XI XH))))))) :: ((Npos (XI (XI (XO (XI (XI (XI
    XH))))))) :: ((Npos (XI (XO (XI (XI (XI (XI XH))))))) :: [])))))))) };
    c_squerySet = { ab = (Npos (XI (XO (XO (XO (XO XH)))))); bits = ((Npos
    (XO (XI (XO (XO (XO XH)))))) :: ((Npos (XI (XI (XO (XO (XO
    XH)))))) :: ((Npos (XI (XI (XI (XO (XO XH)))))) :: ((Npos (XO (XO (XI (XI
    (XI XH)))))) :: ((Npos (XO (XI (XI (XI (XI XH)))))) :: []))))) };
    c_querySet = { ab = (Npos (XI (XO (XO (XO (XO XH)))))); bits = ((Npos (XO
    (XI (XO (XO (XO XH)))))) :: ((Npos (XI (XI (XO (XO (XO XH)))))) :: ((Npos
    (XO (XO (XI (XI (XI XH)))))) :: ((Npos (XO (XI (XI (XI (XI
    XH)))))) :: [])))) }; c_sfragSet = { ab = (Npos (XI (XO (XO (XO (XO
    XH)))))); bits = ((Npos (XO (XI (XO (XO (XO XH)))))) :: ((Npos (XO (XO
    (XI (XI (XI XH)))))) :: ((Npos (XO (XI (XI (XI (XI XH)))))) :: ((Npos (XO
    (XO (XO (XO (XO (XI XH))))))) :: [])))) }; c_fragSet = { ab = (Npos (XI
    (XO (XO (XO (XO XH)))))); bits = ((Npos (XO (XI (XO (XO (XO
    XH)))))) :: ((Npos (XO (XO (XI (XI (XI XH)))))) :: ((Npos (XO (XI (XI (XI
    (XI XH)))))) :: ((Npos (XO (XO (XO (XO (XO (XI XH))))))) :: [])))) };
    c_skipEq = false }; p_removeUserInfo = false; p_removePort = false;
    p_removeFragment = false; p_sortQuery = SortKeys; p_repeated = false;
    p_defaultScheme = [] }

(** val prof_GoogleSafeBrowsing : profile **)

let prof_GoogleSafeBrowsing =
  { p_cfg = { c_report = false; c_fail = false; c_lax = true; c_collapse =
    true; c_acceptInvalid = true; c_pre = HF_gsb; c_post = HF_none;
    c_singlePct = true; c_allowPathNonBase = false; c_skipDrive = false;
    c_special = ((((Npos (XO (XI (XI (XO (XO (XI XH))))))) :: ((Npos (XI (XO
    (XO (XI (XO (XI XH))))))) :: ((Npos (XO (XO (XI (XI (XO (XI
    XH))))))) :: ((Npos (XI (XO (XI (XO (XO (XI XH))))))) :: [])))),
    []) :: ((((Npos (XO (XI (XI (XO (XO (XI XH))))))) :: ((Npos (XO (XO (XI
    (XO (XI (XI XH))))))) :: ((Npos (XO (XO (XO (XO (XI (XI
    XH))))))) :: []))), ((Npos (XO (XI (XO (XO (XI XH)))))) :: ((Npos (XI (XO
    (XO (XO (XI XH)))))) :: []))) :: ((((Npos (XO (XO (XO (XI (XO (XI
    XH))))))) :: ((Npos (XO (XO (XI (XO (XI (XI XH))))))) :: ((Npos (XO (XO
    (XI (XO (XI (XI XH))))))) :: ((Npos (XO (XO (XO (XO (XI (XI
    XH))))))) :: [])))), ((Npos (XO (XO (XO (XI (XI XH)))))) :: ((Npos (XO
    (XO (XO (XO (XI XH)))))) :: []))) :: ((((Npos (XO (XO (XO (XI (XO (XI
    XH))))))) :: ((Npos (XO (XO (XI (XO (XI (XI XH))))))) :: ((Npos (XO (XO
    (XI (XO (XI (XI XH))))))) :: ((Npos (XO (XO (XO (XO (XI (XI
    XH))))))) :: ((Npos (XI (XI (XO (XO (XI (XI XH))))))) :: []))))), ((Npos
    (XO (XO (XI (XO (XI XH)))))) :: ((Npos (XO (XO (XI (XO (XI
    XH)))))) :: ((Npos (XI (XI (XO (XO (XI XH)))))) :: [])))) :: ((((Npos (XI
    (XI (XI (XO (XI (XI XH))))))) :: ((Npos (XI (XI (XO (XO (XI (XI
    XH))))))) :: [])), ((Npos (XO (XO (XO (XI (XI XH)))))) :: ((Npos (XO (XO
    (XO (XO (XI XH)))))) :: []))) :: ((((Npos (XI (XI (XI (XO (XI (XI
    XH))))))) :: ((Npos (XI (XI (XO (XO (XI (XI XH))))))) :: ((Npos (XI (XI
    (XO (XO (XI (XI XH))))))) :: []))), ((Npos (XO (XO (XI (XO (XI
    XH)))))) :: ((Npos (XO (XO (XI (XO (XI XH)))))) :: ((Npos (XI (XI (XO (XO
    (XI XH)))))) :: [])))) :: [])))))); c_skipTrailSlash = false; c_latin1 =
    false; c_pathSet = { ab = (Npos (XI (XO (XO (XO (XO XH)))))); bits =
    ((Npos (XO (XI (XO (XO (XO XH)))))) :: ((Npos (XI (XI (XO (XO (XO
    XH)))))) :: ((Npos (XO (XO (XI (XI (XI XH)))))) :: ((Npos (XO (XI (XI (XI
    (XI XH)))))) :: ((Npos (XI (XI (XI (XI (XI XH)))))) :: ((Npos (XO (XO (XO
    (XO (XO (XI XH))))))) :: ((Npos (XI (XI (XO (XI (XI (XI
    XH))))))) :: ((Npos (XI (XO (XI (XI (XI (XI XH))))))) :: [])))))))) };
    c_squerySet = { ab = (Npos (XI (XO (XO (XO (XO XH)))))); bits = ((Npos
    (XO (XI (XO (XO (XO XH)))))) :: ((Npos (XI (XI (XO (XO (XO
    XH)))))) :: ((Npos (XI (XI (XI (XO (XO XH)))))) :: ((Npos (XO (XO (XI (XI
    (XI XH)))))) :: ((Npos (XO (XI (XI (XI (XI XH)))))) :: []))))) };
    c_querySet = { ab = (Npos (XI (XO (XO (XO (XO XH)))))); bits = ((Npos (XI
    (XI (XO (XO (XO XH)))))) :: ((Npos (XO (XO (XI (XI (XI XH)))))) :: ((Npos
    (XO (XI (XI (XI (XI XH)))))) :: []))) }; c_sfragSet = { ab = (Npos (XI
    (XO (XO (XO (XO XH)))))); bits = ((Npos (XO (XI (XO (XO (XO
    XH)))))) :: ((Npos (XO (XO (XI (XI (XI XH)))))) :: ((Npos (XO (XI (XI (XI
    (XI XH)))))) :: ((Npos (XO (XO (XO (XO (XO (XI XH))))))) :: [])))) };
    c_fragSet = { ab = (Npos (XI (XO (XO (XO (XO XH)))))); bits = ((Npos (XO
    (XI (XO (XO (XO XH)))))) :: ((Npos (XO (XO (XI (XI (XI XH)))))) :: ((Npos
    (XO (XI (XI (XI (XI XH)))))) :: ((Npos (XO (XO (XO (XO (XO (XI
    XH))))))) :: [])))) }; c_skipEq = true }; p_removeUserInfo = false;
    p_removePort = true; p_removeFragment = true; p_sortQuery = NoSort;
    p_repeated = true; p_defaultScheme = ((Npos (XO (XO (XO (XI (XO (XI
    XH))))))) :: ((Npos (XO (XO (XI (XO (XI (XI XH))))))) :: ((Npos (XO (XO
    (XI (XO (XI (XI XH))))))) :: ((Npos (XO (XO (XO (XO (XI (XI
    XH))))))) :: [])))) }

(** val prof_Semantic : profile **)

let prof_Semantic =
  { p_cfg = { c_report = false; c_fail = false; c_lax = true; c_collapse =
    true; c_acceptInvalid = true; c_pre = HF_sem; c_post = HF_none;
    c_singlePct = true; c_allowPathNonBase = true; c_skipDrive = false;
    c_special = ((((Npos (XO (XI (XI (XO (XO (XI XH))))))) :: ((Npos (XI (XO
    (XO (XI (XO (XI XH))))))) :: ((Npos (XO (XO (XI (XI (XO (XI
    XH))))))) :: ((Npos (XI (XO (XI (XO (XO (XI XH))))))) :: [])))),
    []) :: ((((Npos (XO (XI (XI (XO (XO (XI XH))))))) :: ((Npos (XO (XO (XI
    (XO (XI (XI XH))))))) :: ((Npos (XO (XO (XO (XO (XI (XI
    XH))))))) :: []))), ((Npos (XO (XI (XO (XO (XI XH)))))) :: ((Npos (XI (XO
    (XO (XO (XI XH)))))) :: []))) :: ((((Npos (XI (XI (XI (XO (XO (XI
    XH))))))) :: ((Npos (XI (XI (XI (XI (XO (XI XH))))))) :: ((Npos (XO (XO
    (XO (XO (XI (XI XH))))))) :: ((Npos (XO (XO (XO (XI (XO (XI
    XH))))))) :: ((Npos (XI (XO (XI (XO (XO (XI XH))))))) :: ((Npos (XO (XI
    (XO (XO (XI (XI XH))))))) :: [])))))), ((Npos (XI (XI (XI (XO (XI
    XH)))))) :: ((Npos (XO (XO (XO (XO (XI XH)))))) :: []))) :: ((((Npos (XO
    (XO (XO (XI (XO (XI XH))))))) :: ((Npos (XO (XO (XI (XO (XI (XI
    XH))))))) :: ((Npos (XO (XO (XI (XO (XI (XI XH))))))) :: ((Npos (XO (XO
    (XO (XO (XI (XI XH))))))) :: [])))), ((Npos (XO (XO (XO (XI (XI
    XH)))))) :: ((Npos (XO (XO (XO (XO (XI XH)))))) :: []))) :: ((((Npos (XO
    (XO (XO (XI (XO (XI XH))))))) :: ((Npos (XO (XO (XI (XO (XI (XI
    XH))))))) :: ((Npos (XO (XO (XI (XO (XI (XI XH))))))) :: ((Npos (XO (XO
    (XO (XO (XI (XI XH))))))) :: ((Npos (XI (XI (XO (XO (XI (XI
    XH))))))) :: []))))), ((Npos (XO (XO (XI (XO (XI XH)))))) :: ((Npos (XO
    (XO (XI (XO (XI XH)))))) :: ((Npos (XI (XI (XO (XO (XI
    XH)))))) :: [])))) :: ((((Npos (XI (XI (XI (XO (XI (XI
    XH))))))) :: ((Npos (XI (XI (XO (XO (XI (XI XH))))))) :: [])), ((Npos (XO
    (XO (XO (XI (XI XH)))))) :: ((Npos (XO (XO (XO (XO (XI
    XH)))))) :: []))) :: ((((Npos (XI (XI (XI (XO (XI (XI XH))))))) :: ((Npos
    (XI (XI (XO (XO (XI (XI XH))))))) :: ((Npos (XI (XI (XO (XO (XI (XI
    XH))))))) :: []))), ((Npos (XO (XO (XI (XO (XI XH)))))) :: ((Npos (XO (XO
    (XI (XO (XI XH)))))) :: ((Npos (XI (XI (XO (XO (XI
    XH)))))) :: [])))) :: []))))))); c_skipTrailSlash = false; c_latin1 =
    true; c_pathSet = { ab = (Npos (XI (XO (XO (XO (XO XH)))))); bits =
    ((Npos (XO (XI (XO (XO (XO XH)))))) :: ((Npos (XI (XI (XO (XO (XO
    XH)))))) :: ((Npos (XI (XI (XI (XI (XI XH)))))) :: ((Npos (XO (XO (XO (XO
    (XO (XI XH))))))) :: ((Npos (XI (XI (XO (XI (XI (XI XH))))))) :: ((Npos
    (XI (XO (XI (XI (XI (XI XH))))))) :: [])))))) }; c_squerySet = { ab =
    (Npos (XI (XO (XO (XO (XO XH)))))); bits = ((Npos (XO (XI (XO (XO (XO
    XH)))))) :: ((Npos (XI (XI (XO (XO (XO XH)))))) :: ((Npos (XI (XI (XI (XO
    (XO XH)))))) :: ((Npos (XO (XO (XI (XI (XI XH)))))) :: ((Npos (XO (XI (XI
    (XI (XI XH)))))) :: []))))) }; c_querySet = { ab = (Npos (XI (XO (XO (XO
    (XO XH)))))); bits = ((Npos (XI (XI (XO (XO (XO XH)))))) :: ((Npos (XO
    (XO (XI (XI (XI XH)))))) :: ((Npos (XO (XI (XI (XI (XI
    XH)))))) :: []))) }; c_sfragSet = { ab = (Npos (XI (XO (XO (XO (XO
    XH)))))); bits = ((Npos (XO (XI (XO (XO (XO XH)))))) :: ((Npos (XO (XO
    (XI (XI (XI XH)))))) :: ((Npos (XO (XI (XI (XI (XI XH)))))) :: ((Npos (XO
    (XO (XO (XO (XO (XI XH))))))) :: [])))) }; c_fragSet = { ab = (Npos (XI
    (XO (XO (XO (XO XH)))))); bits = ((Npos (XO (XI (XO (XO (XO
    XH)))))) :: ((Npos (XO (XO (XI (XI (XI XH)))))) :: ((Npos (XO (XI (XI (XI
    (XI XH)))))) :: ((Npos (XO (XO (XO (XO (XO (XI XH))))))) :: [])))) };
    c_skipEq = false }; p_removeUserInfo = true; p_removePort = false;
    p_removeFragment = true; p_sortQuery = SortKeys; p_repeated = true;
    p_defaultScheme = ((Npos (XO (XO (XO (XI (XO (XI XH))))))) :: ((Npos (XO
    (XO (XI (XO (XI (XI XH))))))) :: ((Npos (XO (XO (XI (XO (XI (XI
    XH))))))) :: ((Npos (XO (XO (XO (XO (XI (XI XH))))))) :: [])))) }

(** val bs_test : n list -> n -> bool **)

let bs_test b i =
  mem i b

(** val isTabOrNewline : n -> bool **)

let isTabOrNewline =
  bs_test bs_ASCIITabOrNewline

(** val isAlpha : n -> bool **)

let isAlpha =
  bs_test bs_ASCIIAlpha

(** val isDigit : n -> bool **)

let isDigit =
  bs_test bs_ASCIIDigit

(** val isHexDigit : n -> bool **)

let isHexDigit =
  bs_test bs_ASCIIHexDigit

(** val isAlnum : n -> bool **)

let isAlnum =
  bs_test bs_ASCIIAlphanumeric

(** val isForbiddenHost : n -> bool **)

let isForbiddenHost =
  bs_test bs_ForbiddenHostCodePoint

(** val isForbiddenDomain : n -> bool **)

let isForbiddenDomain =
  bs_test bs_ForbiddenDomainCodePoint

(** val pes_set : peset -> n list -> peset **)

let pes_set p bs =
  { ab = p.ab; bits = (app bs p.bits) }

(** val pes_clear : peset -> n list -> peset **)

let pes_clear p bs =
  { ab = p.ab; bits = (filter (fun b -> negb (mem b bs)) p.bits) }

(** val runeShouldBeEncoded : peset -> n -> bool **)

let runeShouldBeEncoded p r =
  (||)
    ((||) (N.ltb r p.ab) (N.ltb (Npos (XO (XI (XI (XI (XI (XI XH))))))) r))
    (bs_test p.bits r)

(** val byteShouldBeEncoded : peset -> n -> bool **)

let byteShouldBeEncoded =
  runeShouldBeEncoded

(** val runeNotInSet : peset -> n -> bool **)

let runeNotInSet p r =
  negb ((||) (N.ltb r p.ab) (bs_test p.bits r))

(** val is_nonchar : n -> bool **)

let is_nonchar r =
  (||)
    ((&&)
      (N.leb (Npos (XO (XO (XO (XO (XI (XO (XI (XI (XI (XO (XI (XI (XI (XI
        (XI XH)))))))))))))))) r)
      (N.leb r (Npos (XI (XI (XI (XI (XO (XI (XI (XI (XI (XO (XI (XI (XI (XI
        (XI XH))))))))))))))))))
    ((&&)
      (N.leb (Npos (XO (XI (XI (XI (XI (XI (XI (XI (XI (XI (XI (XI (XI (XI
        (XI XH))))))))))))))))
        (N.modulo r (Npos (XO (XO (XO (XO (XO (XO (XO (XO (XO (XO (XO (XO (XO
          (XO (XO (XO XH)))))))))))))))))))
      (N.leb r (Npos (XI (XI (XI (XI (XI (XI (XI (XI (XI (XI (XI (XI (XI (XI
        (XI (XI (XO (XO (XO (XO XH)))))))))))))))))))))))

(** val isURLCodePoint : n -> bool **)

let isURLCodePoint r =
  if isAlnum r
  then true
  else if bs_test bs_someURLCodePoints r
       then true
       else if (&&) (N.leb (Npos (XO (XO (XO (XO (XO (XI (XO XH)))))))) r)
                 (N.leb r (Npos (XI (XO (XI (XI (XI (XI (XI (XI (XI (XI (XI
                   (XI (XI (XI (XI (XI (XO (XO (XO (XO
                   XH))))))))))))))))))))))
            then if is_nonchar r
                 then false
                 else if is_surrogate r then false else true
            else false

(** val latin1_enc : n -> n * bool **)

let latin1_enc r =
  if N.ltb r (Npos (XO (XO (XO (XO (XO (XO (XO (XO XH)))))))))
  then (r, true)
  else ((Npos (XO (XI (XO (XI XH))))), false)

(** val percentEncodeRune : cfg -> n -> peset option -> str **)

let percentEncodeRune c r tr =
  let enc =
    if c.c_latin1
    then pct_byte (fst (latin1_enc r))
    else flat_map pct_byte (utf8_enc r)
  in
  (match tr with
   | Some t -> if runeShouldBeEncoded t r then enc else utf8_enc r
   | None -> enc)

(** val percentEncodeInvalidRune : cfg -> n -> peset -> str **)

let percentEncodeInvalidRune c r tr =
  if c.c_singlePct
  then percentEncodeRune c r (Some
         (pes_set tr ((Npos (XI (XO (XI (XO (XO XH)))))) :: [])))
  else percentEncodeRune c r (Some tr)

(** val pes_loop : cfg -> peset -> n list -> str **)

let rec pes_loop c tr = function
| [] -> []
| r :: l' ->
  let bad_pct =
    (&&) (N.eqb r (Npos (XI (XO (XI (XO (XO XH)))))))
      (match l' with
       | [] -> true
       | a :: l0 ->
         (match l0 with
          | [] -> true
          | b :: _ -> negb ((&&) (isHexDigit a) (isHexDigit b))))
  in
  app
    (if (&&) bad_pct c.c_singlePct
     then percentEncodeRune c r (Some
            (pes_set tr ((Npos (XI (XO (XI (XO (XO XH)))))) :: [])))
     else percentEncodeRune c r (Some tr)) (pes_loop c tr l')

(** val percentEncodeString : cfg -> str -> peset -> str **)

let percentEncodeString c s tr =
  pes_loop c tr (runes s)

(** val decodePercentEncoded : cfg -> str -> str **)

let rec decodePercentEncoded c = function
| [] -> []
| b :: s' ->
  if N.eqb b (Npos (XI (XO (XI (XO (XO XH))))))
  then (match s' with
        | [] -> b :: (decodePercentEncoded c s')
        | h :: l0 ->
          (match l0 with
           | [] -> b :: (decodePercentEncoded c s')
           | l :: s'' ->
             if (&&) (isHexDigit h) (isHexDigit l)
             then let v =
                    N.add (N.mul (hex_val h) (Npos (XO (XO (XO (XO XH))))))
                      (hex_val l)
                  in
                  app (if c.c_latin1 then utf8_enc v else v :: [])
                    (decodePercentEncoded c s'')
             else b :: (decodePercentEncoded c s')))
  else b :: (decodePercentEncoded c s')

(** val percentEncodeByte : n -> peset -> str **)

let percentEncodeByte b tr =
  if byteShouldBeEncoded tr b then pct_byte b else b :: []

(** val percentEncodeBytes : str -> peset -> str **)

let percentEncodeBytes s tr =
  flat_map (fun b -> percentEncodeByte b tr) s

type etype =
| DomainToASCII
| DomainToUnicode
| DomainInvalidCodePoint
| HostInvalidCodePoint
| IPv4EmptyPart
| IPv4TooManyParts
| IPv4NonNumericPart
| IPv4NonDecimalPart
| IPv4OutOfRangePart
| IPv6Unclosed
| IPv6InvalidCompression
| IPv6TooManyPieces
| IPv6MultipleCompression
| IPv6InvalidCodePoint
| IPv6TooFewPieces
| IPv4InIPv6TooManyPieces
| IPv4InIPv6InvalidCodePoint
| IPv4InIPv6OutOfRangePart
| IPv4InIPv6TooFewParts
| InvalidURLUnit
| SpecialSchemeMissingFollowingSolidus
| MissingSchemeNonRelativeURL
| InvalidReverseSolidus
| InvalidCredentials
| HostMissing
| PortMissing
| PortOutOfRange
| PortInvalid
| FileInvalidWindowsDriveLetter
| FileInvalidWindowsDriveLetterHost

(** val etype_index : etype -> n **)

let etype_index = function
| DomainToASCII -> N0
| DomainToUnicode -> Npos XH
| DomainInvalidCodePoint -> Npos (XO XH)
| HostInvalidCodePoint -> Npos (XI XH)
| IPv4EmptyPart -> Npos (XO (XO XH))
| IPv4TooManyParts -> Npos (XI (XO XH))
| IPv4NonNumericPart -> Npos (XO (XI XH))
| IPv4NonDecimalPart -> Npos (XI (XI XH))
| IPv4OutOfRangePart -> Npos (XO (XO (XO XH)))
| IPv6Unclosed -> Npos (XI (XO (XO XH)))
| IPv6InvalidCompression -> Npos (XO (XI (XO XH)))
| IPv6TooManyPieces -> Npos (XI (XI (XO XH)))
| IPv6MultipleCompression -> Npos (XO (XO (XI XH)))
| IPv6InvalidCodePoint -> Npos (XI (XO (XI XH)))
| IPv6TooFewPieces -> Npos (XO (XI (XI XH)))
| IPv4InIPv6TooManyPieces -> Npos (XI (XI (XI XH)))
| IPv4InIPv6InvalidCodePoint -> Npos (XO (XO (XO (XO XH))))
| IPv4InIPv6OutOfRangePart -> Npos (XI (XO (XO (XO XH))))
| IPv4InIPv6TooFewParts -> Npos (XO (XI (XO (XO XH))))
| InvalidURLUnit -> Npos (XI (XI (XO (XO XH))))
| SpecialSchemeMissingFollowingSolidus -> Npos (XO (XO (XI (XO XH))))
| MissingSchemeNonRelativeURL -> Npos (XI (XO (XI (XO XH))))
| InvalidReverseSolidus -> Npos (XO (XI (XI (XO XH))))
| InvalidCredentials -> Npos (XI (XI (XI (XO XH))))
| HostMissing -> Npos (XO (XO (XO (XI XH))))
| PortMissing -> Npos (XI (XO (XO (XI XH))))
| PortOutOfRange -> Npos (XO (XI (XO (XI XH))))
| PortInvalid -> Npos (XI (XI (XO (XI XH))))
| FileInvalidWindowsDriveLetter -> Npos (XO (XO (XI (XI XH))))
| FileInvalidWindowsDriveLetterHost -> Npos (XI (XO (XI (XI XH))))

type verr = { e_type : etype; e_failure : bool; e_url : str }

type url = { u_input : str; u_scheme : str; u_username : str;
             u_password : str; u_host : str option; u_port : str option;
             u_decodedPort : n; u_path : str list; u_opaque : bool;
             u_query : str option; u_fragment : str option;
             u_verrs : verr list; u_sp : (str * str) list option }

(** val empty_url : str -> url **)

let empty_url input =
  { u_input = input; u_scheme = []; u_username = []; u_password = [];
    u_host = None; u_port = None; u_decodedPort = N0; u_path = []; u_opaque =
    false; u_query = None; u_fragment = None; u_verrs = []; u_sp = None }

(** val set_input : url -> str -> url **)

let set_input u v =
  { u_input = v; u_scheme = u.u_scheme; u_username = u.u_username;
    u_password = u.u_password; u_host = u.u_host; u_port = u.u_port;
    u_decodedPort = u.u_decodedPort; u_path = u.u_path; u_opaque =
    u.u_opaque; u_query = u.u_query; u_fragment = u.u_fragment; u_verrs =
    u.u_verrs; u_sp = u.u_sp }

(** val set_scheme : url -> str -> url **)

let set_scheme u v =
  { u_input = u.u_input; u_scheme = v; u_username = u.u_username;
    u_password = u.u_password; u_host = u.u_host; u_port = u.u_port;
    u_decodedPort = u.u_decodedPort; u_path = u.u_path; u_opaque =
    u.u_opaque; u_query = u.u_query; u_fragment = u.u_fragment; u_verrs =
    u.u_verrs; u_sp = u.u_sp }

(** val set_username : url -> str -> url **)

let set_username u v =
  { u_input = u.u_input; u_scheme = u.u_scheme; u_username = v; u_password =
    u.u_password; u_host = u.u_host; u_port = u.u_port; u_decodedPort =
    u.u_decodedPort; u_path = u.u_path; u_opaque = u.u_opaque; u_query =
    u.u_query; u_fragment = u.u_fragment; u_verrs = u.u_verrs; u_sp = u.u_sp }

(** val set_password : url -> str -> url **)

let set_password u v =
  { u_input = u.u_input; u_scheme = u.u_scheme; u_username = u.u_username;
    u_password = v; u_host = u.u_host; u_port = u.u_port; u_decodedPort =
    u.u_decodedPort; u_path = u.u_path; u_opaque = u.u_opaque; u_query =
    u.u_query; u_fragment = u.u_fragment; u_verrs = u.u_verrs; u_sp = u.u_sp }

(** val set_host : url -> str option -> url **)

let set_host u v =
  { u_input = u.u_input; u_scheme = u.u_scheme; u_username = u.u_username;
    u_password = u.u_password; u_host = v; u_port = u.u_port; u_decodedPort =
    u.u_decodedPort; u_path = u.u_path; u_opaque = u.u_opaque; u_query =
    u.u_query; u_fragment = u.u_fragment; u_verrs = u.u_verrs; u_sp = u.u_sp }

(** val set_port : url -> str option -> n -> url **)

let set_port u v d =
  { u_input = u.u_input; u_scheme = u.u_scheme; u_username = u.u_username;
    u_password = u.u_password; u_host = u.u_host; u_port = v; u_decodedPort =
    d; u_path = u.u_path; u_opaque = u.u_opaque; u_query = u.u_query;
    u_fragment = u.u_fragment; u_verrs = u.u_verrs; u_sp = u.u_sp }

(** val set_path : url -> str list -> bool -> url **)

let set_path u p o =
  { u_input = u.u_input; u_scheme = u.u_scheme; u_username = u.u_username;
    u_password = u.u_password; u_host = u.u_host; u_port = u.u_port;
    u_decodedPort = u.u_decodedPort; u_path = p; u_opaque = o; u_query =
    u.u_query; u_fragment = u.u_fragment; u_verrs = u.u_verrs; u_sp = u.u_sp }

(** val set_query : url -> str option -> url **)

let set_query u v =
  { u_input = u.u_input; u_scheme = u.u_scheme; u_username = u.u_username;
    u_password = u.u_password; u_host = u.u_host; u_port = u.u_port;
    u_decodedPort = u.u_decodedPort; u_path = u.u_path; u_opaque =
    u.u_opaque; u_query = v; u_fragment = u.u_fragment; u_verrs = u.u_verrs;
    u_sp = u.u_sp }

(** val set_fragment : url -> str option -> url **)

let set_fragment u v =
  { u_input = u.u_input; u_scheme = u.u_scheme; u_username = u.u_username;
    u_password = u.u_password; u_host = u.u_host; u_port = u.u_port;
    u_decodedPort = u.u_decodedPort; u_path = u.u_path; u_opaque =
    u.u_opaque; u_query = u.u_query; u_fragment = v; u_verrs = u.u_verrs;
    u_sp = u.u_sp }

(** val set_verrs : url -> verr list -> url **)

let set_verrs u v =
  { u_input = u.u_input; u_scheme = u.u_scheme; u_username = u.u_username;
    u_password = u.u_password; u_host = u.u_host; u_port = u.u_port;
    u_decodedPort = u.u_decodedPort; u_path = u.u_path; u_opaque =
    u.u_opaque; u_query = u.u_query; u_fragment = u.u_fragment; u_verrs = v;
    u_sp = u.u_sp }

(** val set_sp : url -> (str * str) list option -> url **)

let set_sp u v =
  { u_input = u.u_input; u_scheme = u.u_scheme; u_username = u.u_username;
    u_password = u.u_password; u_host = u.u_host; u_port = u.u_port;
    u_decodedPort = u.u_decodedPort; u_path = u.u_path; u_opaque =
    u.u_opaque; u_query = u.u_query; u_fragment = u.u_fragment; u_verrs =
    u.u_verrs; u_sp = v }

(** val assoc : str -> (str * str) list -> str option **)

let rec assoc k = function
| [] -> None
| p :: l' -> let (k', v) = p in if str_eqb k k' then Some v else assoc k l'

(** val getSpecialScheme : cfg -> str -> str option **)

let getSpecialScheme c s =
  assoc s c.c_special

(** val isSpecialScheme : cfg -> str -> bool **)

let isSpecialScheme c s =
  is_some (getSpecialScheme c s)

(** val isSpecialScheme0 : cfg -> url -> bool **)

let isSpecialScheme0 c u =
  isSpecialScheme c u.u_scheme

(** val isSpecialSchemeAndBackslash : cfg -> url -> n -> bool **)

let isSpecialSchemeAndBackslash c u r =
  (&&) (isSpecialScheme0 c u)
    (N.eqb r (Npos (XO (XO (XI (XI (XI (XO XH))))))))

(** val cleanDefaultPort : cfg -> url -> url **)

let cleanDefaultPort c u =
  match getSpecialScheme c u.u_scheme with
  | Some dp ->
    (match u.u_port with
     | Some p -> if str_eqb dp p then set_port u None N0 else u
     | None -> set_port u None N0)
  | None -> u

(** val getDefaultPort : cfg -> url -> n **)

let getDefaultPort c u =
  match getSpecialScheme c u.u_scheme with
  | Some dp ->
    if (&&) (negb (is_nil dp)) (all_in is_digit dp)
    then digits_val (Npos (XO (XI (XO XH)))) dp
    else N0
  | None -> N0

(** val handleError : cfg -> url -> etype -> bool -> url * verr option **)

let handleError c u t failure =
  let e = { e_type = t; e_failure = failure; e_url = u.u_input } in
  let u' = if c.c_report then set_verrs u (app u.u_verrs (e :: [])) else u in
  (u', (if (||) failure c.c_fail then Some e else None))

(** val isWindowsDriveLetter : str -> bool **)

let isWindowsDriveLetter = function
| [] -> false
| a :: l ->
  (match l with
   | [] -> false
   | b :: l0 ->
     (match l0 with
      | [] ->
        (&&) (isAlpha a)
          ((||) (N.eqb b (Npos (XO (XI (XO (XI (XI XH)))))))
            (N.eqb b (Npos (XO (XO (XI (XI (XI (XI XH)))))))))
      | _ :: _ -> false))

(** val isNormalizedWindowsDriveLetter : str -> bool **)

let isNormalizedWindowsDriveLetter = function
| [] -> false
| a :: l ->
  (match l with
   | [] -> false
   | b :: l0 ->
     (match l0 with
      | [] -> (&&) (isAlpha a) (N.eqb b (Npos (XO (XI (XO (XI (XI XH)))))))
      | _ :: _ -> false))

(** val startsWithAWindowsDriveLetter : str -> bool **)

let startsWithAWindowsDriveLetter = function
| [] -> false
| a :: l ->
  (match l with
   | [] -> false
   | b :: rest ->
     (&&) (isWindowsDriveLetter (a :: (b :: [])))
       (match rest with
        | [] -> true
        | x :: _ ->
          (||)
            ((||)
              ((||) (N.eqb x (Npos (XI (XI (XI (XI (XO XH)))))))
                (N.eqb x (Npos (XO (XO (XI (XI (XI (XO XH)))))))))
              (N.eqb x (Npos (XI (XI (XI (XI (XI XH))))))))
            (N.eqb x (Npos (XI (XI (XO (XO (XO XH)))))))))

(** val shortenPath : str -> str list -> str list **)

let shortenPath scheme p = match p with
| [] -> drop_last p
| x :: l ->
  (match l with
   | [] ->
     if (&&) (str_eqb scheme s_file) (isNormalizedWindowsDriveLetter x)
     then p
     else []
   | _ :: _ -> drop_last p)

(** val path_string : str list -> bool -> str option **)

let path_string p = function
| true -> nth_opt p O
| false ->
  Some (flat_map (fun s -> (Npos (XI (XI (XI (XI (XO XH)))))) :: s) p)

(** val protocol : url -> str **)

let protocol u =
  app u.u_scheme ((Npos (XO (XI (XO (XI (XI XH)))))) :: [])

(** val username : url -> str **)

let username u =
  u.u_username

(** val password : url -> str **)

let password u =
  u.u_password

(** val hostname : url -> str **)

let hostname u =
  match u.u_host with
  | Some h -> h
  | None -> []

(** val port : url -> str **)

let port u =
  match u.u_port with
  | Some p -> p
  | None -> []

(** val host : url -> str **)

let host u =
  match u.u_host with
  | Some h ->
    (match u.u_port with
     | Some p -> app h (app ((Npos (XO (XI (XO (XI (XI XH)))))) :: []) p)
     | None -> h)
  | None -> []

(** val pathname : url -> str option **)

let pathname u =
  path_string u.u_path u.u_opaque

(** val search : url -> str **)

let search u =
  match u.u_query with
  | Some s ->
    (match s with
     | [] -> []
     | c :: q -> (Npos (XI (XI (XI (XI (XI XH)))))) :: (c :: q))
  | None -> []

(** val query : url -> str **)

let query u =
  match u.u_query with
  | Some q -> q
  | None -> []

(** val hash : url -> str **)

let hash u =
  match u.u_fragment with
  | Some s ->
    (match s with
     | [] -> []
     | c :: f -> (Npos (XI (XI (XO (XO (XO XH)))))) :: (c :: f))
  | None -> []

(** val fragment : url -> str **)

let fragment u =
  match u.u_fragment with
  | Some f -> f
  | None -> []

(** val decodedPort : cfg -> url -> n **)

let decodedPort c u =
  match u.u_port with
  | Some _ -> u.u_decodedPort
  | None -> getDefaultPort c u

(** val href : url -> bool -> str option **)

let href u excludeFragment =
  match pathname u with
  | Some pathname0 ->
    Some
      (app u.u_scheme
        (app ((Npos (XO (XI (XO (XI (XI XH)))))) :: [])
          (app
            (match u.u_host with
             | Some h ->
               app ((Npos (XI (XI (XI (XI (XO XH)))))) :: ((Npos (XI (XI (XI
                 (XI (XO XH)))))) :: []))
                 (app
                   (if (||) (negb (is_nil u.u_username))
                         (negb (is_nil u.u_password))
                    then app u.u_username
                           (app
                             (if negb (is_nil u.u_password)
                              then (Npos (XO (XI (XO (XI (XI
                                     XH)))))) :: u.u_password
                              else []) ((Npos (XO (XO (XO (XO (XO (XO
                             XH))))))) :: []))
                    else [])
                   (app h
                     (match u.u_port with
                      | Some p -> (Npos (XO (XI (XO (XI (XI XH)))))) :: p
                      | None -> [])))
             | None ->
               if (&&)
                    ((&&) (negb u.u_opaque) (Z.ltb (Zpos XH) (len u.u_path)))
                    (match u.u_path with
                     | [] -> false
                     | x :: _ -> is_nil x)
               then (Npos (XI (XI (XI (XI (XO XH)))))) :: ((Npos (XO (XI (XI
                      (XI (XO XH)))))) :: [])
               else [])
            (app pathname0
              (app
                (match u.u_query with
                 | Some q -> (Npos (XI (XI (XI (XI (XI XH)))))) :: q
                 | None -> [])
                (if excludeFragment
                 then []
                 else (match u.u_fragment with
                       | Some f -> (Npos (XI (XI (XO (XO (XO XH)))))) :: f
                       | None -> [])))))))
  | None -> None

(** val isIPv4Address : str -> bool **)

let isIPv4Address s =
  let parts = split (Npos (XO (XI (XI (XI (XO XH)))))) s in
  (&&) (Z.eqb (len parts) (Zpos (XO (XO XH))))
    (forallb (fun p ->
      (&&)
        ((&&)
          ((&&) ((&&) (negb (is_nil p)) (Z.leb (len p) (Zpos (XI XH))))
            (all_in isDigit p))
          (negb
            ((&&) (Z.ltb (Zpos XH) (len p))
              (match p with
               | [] -> false
               | x :: _ -> N.eqb x (Npos (XO (XO (XO (XO (XI XH))))))))))
        (N.leb (digits_val (Npos (XO (XI (XO XH)))) p) (Npos (XI (XI (XI (XI
          (XI (XI (XI XH)))))))))) parts)

(** val isIPv4 : cfg -> url -> bool **)

let isIPv4 c u =
  match u.u_host with
  | Some h -> (&&) (isSpecialScheme0 c u) (isIPv4Address h)
  | None -> false

(** val isIPv6 : url -> bool **)

let isIPv6 u =
  match u.u_host with
  | Some s ->
    (match s with
     | [] -> false
     | n0 :: _ ->
       (match n0 with
        | N0 -> false
        | Npos p ->
          (match p with
           | XI p0 ->
             (match p0 with
              | XI p1 ->
                (match p1 with
                 | XO p2 ->
                   (match p2 with
                    | XI p3 ->
                      (match p3 with
                       | XI p4 ->
                         (match p4 with
                          | XO p5 -> (match p5 with
                                      | XH -> true
                                      | _ -> false)
                          | _ -> false)
                       | _ -> false)
                    | _ -> false)
                 | _ -> false)
              | _ -> false)
           | _ -> false)))
  | None -> false

type 'a res =
| Ok of url * 'a
| Er of url * verr

(** val herr : cfg -> url -> etype -> bool -> (url -> 'a1 res) -> 'a1 res **)

let herr c u t failure k =
  let (u', oe) = handleError c u t failure in
  (match oe with
   | Some e -> Er (u', e)
   | None -> k u')

type numres =
| NumOk of n * bool
| NumErr of bool

(** val parseIPv4Number_nonempty : str -> numres **)

let parseIPv4Number_nonempty input = match input with
| [] ->
  let p = ((Npos (XO (XI (XO XH)))), false) in
  let (radix, ve) = p in
  (match input with
   | [] -> NumOk (N0, true)
   | _ :: _ ->
     if forallb (fun ch ->
          (||)
            ((||)
              ((&&) (N.eqb radix (Npos (XO (XO (XO (XO XH))))))
                (isHexDigit ch))
              ((&&) (N.eqb radix (Npos (XO (XI (XO XH))))) (isDigit ch)))
            ((&&)
              ((&&) (N.eqb radix (Npos (XO (XO (XO XH)))))
                (N.leb (Npos (XO (XO (XO (XO (XI XH)))))) ch))
              (N.leb ch (Npos (XI (XI (XI (XO (XI XH))))))))) input
     then let n0 = digits_val radix input in
          if N.ltb n0 (Npos (XO (XO (XO (XO (XO (XO (XO (XO (XO (XO (XO (XO
               (XO (XO (XO (XO (XO (XO (XO (XO (XO (XO (XO (XO (XO (XO (XO
               (XO (XO (XO (XO (XO (XO (XO (XO (XO (XO (XO (XO (XO (XO (XO
               (XO (XO (XO (XO (XO (XO (XO (XO (XO (XO (XO (XO (XO (XO (XO
               (XO (XO (XO (XO (XO (XO
               XH))))))))))))))))))))))))))))))))))))))))))))))))))))))))))))))))
          then NumOk (n0, ve)
          else NumErr true
     else NumErr false)
| n0 :: l ->
  (match n0 with
   | N0 ->
     let p = ((Npos (XO (XI (XO XH)))), false) in
     let (radix, ve) = p in
     (match input with
      | [] -> NumOk (N0, true)
      | _ :: _ ->
        if forallb (fun ch ->
             (||)
               ((||)
                 ((&&) (N.eqb radix (Npos (XO (XO (XO (XO XH))))))
                   (isHexDigit ch))
                 ((&&) (N.eqb radix (Npos (XO (XI (XO XH))))) (isDigit ch)))
               ((&&)
                 ((&&) (N.eqb radix (Npos (XO (XO (XO XH)))))
                   (N.leb (Npos (XO (XO (XO (XO (XI XH)))))) ch))
                 (N.leb ch (Npos (XI (XI (XI (XO (XI XH))))))))) input
        then let n1 = digits_val radix input in
             if N.ltb n1 (Npos (XO (XO (XO (XO (XO (XO (XO (XO (XO (XO (XO
                  (XO (XO (XO (XO (XO (XO (XO (XO (XO (XO (XO (XO (XO (XO (XO
                  (XO (XO (XO (XO (XO (XO (XO (XO (XO (XO (XO (XO (XO (XO (XO
                  (XO (XO (XO (XO (XO (XO (XO (XO (XO (XO (XO (XO (XO (XO (XO
                  (XO (XO (XO (XO (XO (XO (XO
                  XH))))))))))))))))))))))))))))))))))))))))))))))))))))))))))))))))
             then NumOk (n1, ve)
             else NumErr true
        else NumErr false)
   | Npos p ->
     (match p with
      | XO p0 ->
        (match p0 with
         | XO p1 ->
           (match p1 with
            | XO p2 ->
              (match p2 with
               | XO p3 ->
                 (match p3 with
                  | XI p4 ->
                    (match p4 with
                     | XH ->
                       (match l with
                        | [] ->
                          let p5 = ((Npos (XO (XI (XO XH)))), false) in
                          let (radix, ve) = p5 in
                          (match input with
                           | [] -> NumOk (N0, true)
                           | _ :: _ ->
                             if forallb (fun ch ->
                                  (||)
                                    ((||)
                                      ((&&)
                                        (N.eqb radix (Npos (XO (XO (XO (XO
                                          XH)))))) (isHexDigit ch))
                                      ((&&)
                                        (N.eqb radix (Npos (XO (XI (XO XH)))))
                                        (isDigit ch)))
                                    ((&&)
                                      ((&&)
                                        (N.eqb radix (Npos (XO (XO (XO XH)))))
                                        (N.leb (Npos (XO (XO (XO (XO (XI
                                          XH)))))) ch))
                                      (N.leb ch (Npos (XI (XI (XI (XO (XI
                                        XH))))))))) input
                             then let n1 = digits_val radix input in
                                  if N.ltb n1 (Npos (XO (XO (XO (XO (XO (XO
                                       (XO (XO (XO (XO (XO (XO (XO (XO (XO
                                       (XO (XO (XO (XO (XO (XO (XO (XO (XO
                                       (XO (XO (XO (XO (XO (XO (XO (XO (XO
                                       (XO (XO (XO (XO (XO (XO (XO (XO (XO
                                       (XO (XO (XO (XO (XO (XO (XO (XO (XO
                                       (XO (XO (XO (XO (XO (XO (XO (XO (XO
                                       (XO (XO (XO
                                       XH))))))))))))))))))))))))))))))))))))))))))))))))))))))))))))))))
                                  then NumOk (n1, ve)
                                  else NumErr true
                             else NumErr false)
                        | x :: rest ->
                          if (||)
                               (N.eqb x (Npos (XO (XO (XO (XI (XI (XI
                                 XH))))))))
                               (N.eqb x (Npos (XO (XO (XO (XI (XI (XO
                                 XH))))))))
                          then let p5 = ((Npos (XO (XO (XO (XO XH))))), true)
                               in
                               let (radix, ve) = p5 in
                               (match rest with
                                | [] -> NumOk (N0, true)
                                | _ :: _ ->
                                  if forallb (fun ch ->
                                       (||)
                                         ((||)
                                           ((&&)
                                             (N.eqb radix (Npos (XO (XO (XO
                                               (XO XH)))))) (isHexDigit ch))
                                           ((&&)
                                             (N.eqb radix (Npos (XO (XI (XO
                                               XH))))) (isDigit ch)))
                                         ((&&)
                                           ((&&)
                                             (N.eqb radix (Npos (XO (XO (XO
                                               XH)))))
                                             (N.leb (Npos (XO (XO (XO (XO (XI
                                               XH)))))) ch))
                                           (N.leb ch (Npos (XI (XI (XI (XO
                                             (XI XH))))))))) rest
                                  then let n1 = digits_val radix rest in
                                       if N.ltb n1 (Npos (XO (XO (XO (XO (XO
                                            (XO (XO (XO (XO (XO (XO (XO (XO
                                            (XO (XO (XO (XO (XO (XO (XO (XO
                                            (XO (XO (XO (XO (XO (XO (XO (XO
                                            (XO (XO (XO (XO (XO (XO (XO (XO
                                            (XO (XO (XO (XO (XO (XO (XO (XO
                                            (XO (XO (XO (XO (XO (XO (XO (XO
                                            (XO (XO (XO (XO (XO (XO (XO (XO
                                            (XO (XO
                                            XH))))))))))))))))))))))))))))))))))))))))))))))))))))))))))))))))
                                       then NumOk (n1, ve)
                                       else NumErr true
                                  else NumErr false)
                          else let p5 = ((Npos (XO (XO (XO XH)))), true) in
                               let digits = x :: rest in
                               let (radix, ve) = p5 in
                               (match digits with
                                | [] -> NumOk (N0, true)
                                | _ :: _ ->
                                  if forallb (fun ch ->
                                       (||)
                                         ((||)
                                           ((&&)
                                             (N.eqb radix (Npos (XO (XO (XO
                                               (XO XH)))))) (isHexDigit ch))
                                           ((&&)
                                             (N.eqb radix (Npos (XO (XI (XO
                                               XH))))) (isDigit ch)))
                                         ((&&)
                                           ((&&)
                                             (N.eqb radix (Npos (XO (XO (XO
                                               XH)))))
                                             (N.leb (Npos (XO (XO (XO (XO (XI
                                               XH)))))) ch))
                                           (N.leb ch (Npos (XI (XI (XI (XO
                                             (XI XH))))))))) digits
                                  then let n1 = digits_val radix digits in
                                       if N.ltb n1 (Npos (XO (XO (XO (XO (XO
                                            (XO (XO (XO (XO (XO (XO (XO (XO
                                            (XO (XO (XO (XO (XO (XO (XO (XO
                                            (XO (XO (XO (XO (XO (XO (XO (XO
                                            (XO (XO (XO (XO (XO (XO (XO (XO
                                            (XO (XO (XO (XO (XO (XO (XO (XO
                                            (XO (XO (XO (XO (XO (XO (XO (XO
                                            (XO (XO (XO (XO (XO (XO (XO (XO
                                            (XO (XO
                                            XH))))))))))))))))))))))))))))))))))))))))))))))))))))))))))))))))
                                       then NumOk (n1, ve)
                                       else NumErr true
                                  else NumErr false))
                     | _ ->
                       let p5 = ((Npos (XO (XI (XO XH)))), false) in
                       let (radix, ve) = p5 in
                       (match input with
                        | [] -> NumOk (N0, true)
                        | _ :: _ ->
                          if forallb (fun ch ->
                               (||)
                                 ((||)
                                   ((&&)
                                     (N.eqb radix (Npos (XO (XO (XO (XO
                                       XH)))))) (isHexDigit ch))
                                   ((&&)
                                     (N.eqb radix (Npos (XO (XI (XO XH)))))
                                     (isDigit ch)))
                                 ((&&)
                                   ((&&)
                                     (N.eqb radix (Npos (XO (XO (XO XH)))))
                                     (N.leb (Npos (XO (XO (XO (XO (XI
                                       XH)))))) ch))
                                   (N.leb ch (Npos (XI (XI (XI (XO (XI
                                     XH))))))))) input
                          then let n1 = digits_val radix input in
                               if N.ltb n1 (Npos (XO (XO (XO (XO (XO (XO (XO
                                    (XO (XO (XO (XO (XO (XO (XO (XO (XO (XO
                                    (XO (XO (XO (XO (XO (XO (XO (XO (XO (XO
                                    (XO (XO (XO (XO (XO (XO (XO (XO (XO (XO
                                    (XO (XO (XO (XO (XO (XO (XO (XO (XO (XO
                                    (XO (XO (XO (XO (XO (XO (XO (XO (XO (XO
                                    (XO (XO (XO (XO (XO (XO
                                    XH))))))))))))))))))))))))))))))))))))))))))))))))))))))))))))))))
                               then NumOk (n1, ve)
                               else NumErr true
                          else NumErr false))
                  | _ ->
                    let p4 = ((Npos (XO (XI (XO XH)))), false) in
                    let (radix, ve) = p4 in
                    (match input with
                     | [] -> NumOk (N0, true)
                     | _ :: _ ->
                       if forallb (fun ch ->
                            (||)
                              ((||)
                                ((&&)
                                  (N.eqb radix (Npos (XO (XO (XO (XO XH))))))
                                  (isHexDigit ch))
                                ((&&) (N.eqb radix (Npos (XO (XI (XO XH)))))
                                  (isDigit ch)))
                              ((&&)
                                ((&&) (N.eqb radix (Npos (XO (XO (XO XH)))))
                                  (N.leb (Npos (XO (XO (XO (XO (XI XH))))))
                                    ch))
                                (N.leb ch (Npos (XI (XI (XI (XO (XI XH)))))))))
                            input
                       then let n1 = digits_val radix input in
                            if N.ltb n1 (Npos (XO (XO (XO (XO (XO (XO (XO (XO
                                 (XO (XO (XO (XO (XO (XO (XO (XO (XO (XO (XO
                                 (XO (XO (XO (XO (XO (XO (XO (XO (XO (XO (XO
                                 (XO (XO (XO (XO (XO (XO (XO (XO (XO (XO (XO
                                 (XO (XO (XO (XO (XO (XO (XO (XO (XO (XO (XO
                                 (XO (XO (XO (XO (XO (XO (XO (XO (XO (XO (XO
                                 XH))))))))))))))))))))))))))))))))))))))))))))))))))))))))))))))))
                            then NumOk (n1, ve)
                            else NumErr true
                       else NumErr false))
               | _ ->
                 let p3 = ((Npos (XO (XI (XO XH)))), false) in
                 let (radix, ve) = p3 in
                 (match input with
                  | [] -> NumOk (N0, true)
                  | _ :: _ ->
                    if forallb (fun ch ->
                         (||)
                           ((||)
                             ((&&)
                               (N.eqb radix (Npos (XO (XO (XO (XO XH))))))
                               (isHexDigit ch))
                             ((&&) (N.eqb radix (Npos (XO (XI (XO XH)))))
                               (isDigit ch)))
                           ((&&)
                             ((&&) (N.eqb radix (Npos (XO (XO (XO XH)))))
                               (N.leb (Npos (XO (XO (XO (XO (XI XH)))))) ch))
                             (N.leb ch (Npos (XI (XI (XI (XO (XI XH)))))))))
                         input
                    then let n1 = digits_val radix input in
                         if N.ltb n1 (Npos (XO (XO (XO (XO (XO (XO (XO (XO
                              (XO (XO (XO (XO (XO (XO (XO (XO (XO (XO (XO (XO
                              (XO (XO (XO (XO (XO (XO (XO (XO (XO (XO (XO (XO
                              (XO (XO (XO (XO (XO (XO (XO (XO (XO (XO (XO (XO
                              (XO (XO (XO (XO (XO (XO (XO (XO (XO (XO (XO (XO
                              (XO (XO (XO (XO (XO (XO (XO
                              XH))))))))))))))))))))))))))))))))))))))))))))))))))))))))))))))))
                         then NumOk (n1, ve)
                         else NumErr true
                    else NumErr false))
            | _ ->
              let p2 = ((Npos (XO (XI (XO XH)))), false) in
              let (radix, ve) = p2 in
              (match input with
               | [] -> NumOk (N0, true)
               | _ :: _ ->
                 if forallb (fun ch ->
                      (||)
                        ((||)
                          ((&&) (N.eqb radix (Npos (XO (XO (XO (XO XH))))))
                            (isHexDigit ch))
                          ((&&) (N.eqb radix (Npos (XO (XI (XO XH)))))
                            (isDigit ch)))
                        ((&&)
                          ((&&) (N.eqb radix (Npos (XO (XO (XO XH)))))
                            (N.leb (Npos (XO (XO (XO (XO (XI XH)))))) ch))
                          (N.leb ch (Npos (XI (XI (XI (XO (XI XH)))))))))
                      input
                 then let n1 = digits_val radix input in
                      if N.ltb n1 (Npos (XO (XO (XO (XO (XO (XO (XO (XO (XO
                           (XO (XO (XO (XO (XO (XO (XO (XO (XO (XO (XO (XO
                           (XO (XO (XO (XO (XO (XO (XO (XO (XO (XO (XO (XO
                           (XO (XO (XO (XO (XO (XO (XO (XO (XO (XO (XO (XO
                           (XO (XO (XO (XO (XO (XO (XO (XO (XO (XO (XO (XO
                           (XO (XO (XO (XO (XO (XO
                           XH))))))))))))))))))))))))))))))))))))))))))))))))))))))))))))))))
                      then NumOk (n1, ve)
                      else NumErr true
                 else NumErr false))
         | _ ->
           let p1 = ((Npos (XO (XI (XO XH)))), false) in
           let (radix, ve) = p1 in
           (match input with
            | [] -> NumOk (N0, true)
            | _ :: _ ->
              if forallb (fun ch ->
                   (||)
                     ((||)
                       ((&&) (N.eqb radix (Npos (XO (XO (XO (XO XH))))))
                         (isHexDigit ch))
                       ((&&) (N.eqb radix (Npos (XO (XI (XO XH)))))
                         (isDigit ch)))
                     ((&&)
                       ((&&) (N.eqb radix (Npos (XO (XO (XO XH)))))
                         (N.leb (Npos (XO (XO (XO (XO (XI XH)))))) ch))
                       (N.leb ch (Npos (XI (XI (XI (XO (XI XH))))))))) input
              then let n1 = digits_val radix input in
                   if N.ltb n1 (Npos (XO (XO (XO (XO (XO (XO (XO (XO (XO (XO
                        (XO (XO (XO (XO (XO (XO (XO (XO (XO (XO (XO (XO (XO
                        (XO (XO (XO (XO (XO (XO (XO (XO (XO (XO (XO (XO (XO
                        (XO (XO (XO (XO (XO (XO (XO (XO (XO (XO (XO (XO (XO
                        (XO (XO (XO (XO (XO (XO (XO (XO (XO (XO (XO (XO (XO
                        (XO
                        XH))))))))))))))))))))))))))))))))))))))))))))))))))))))))))))))))
                   then NumOk (n1, ve)
                   else NumErr true
              else NumErr false))
      | _ ->
        let p0 = ((Npos (XO (XI (XO XH)))), false) in
        let (radix, ve) = p0 in
        (match input with
         | [] -> NumOk (N0, true)
         | _ :: _ ->
           if forallb (fun ch ->
                (||)
                  ((||)
                    ((&&) (N.eqb radix (Npos (XO (XO (XO (XO XH))))))
                      (isHexDigit ch))
                    ((&&) (N.eqb radix (Npos (XO (XI (XO XH))))) (isDigit ch)))
                  ((&&)
                    ((&&) (N.eqb radix (Npos (XO (XO (XO XH)))))
                      (N.leb (Npos (XO (XO (XO (XO (XI XH)))))) ch))
                    (N.leb ch (Npos (XI (XI (XI (XO (XI XH))))))))) input
           then let n1 = digits_val radix input in
                if N.ltb n1 (Npos (XO (XO (XO (XO (XO (XO (XO (XO (XO (XO (XO
                     (XO (XO (XO (XO (XO (XO (XO (XO (XO (XO (XO (XO (XO (XO
                     (XO (XO (XO (XO (XO (XO (XO (XO (XO (XO (XO (XO (XO (XO
                     (XO (XO (XO (XO (XO (XO (XO (XO (XO (XO (XO (XO (XO (XO
                     (XO (XO (XO (XO (XO (XO (XO (XO (XO (XO
                     XH))))))))))))))))))))))))))))))))))))))))))))))))))))))))))))))))
                then NumOk (n1, ve)
                else NumErr true
           else NumErr false)))

(** val parseIPv4Number : cfg -> url -> str -> url * numres **)

let parseIPv4Number c u input = match input with
| [] ->
  let (u', _) = handleError c u IPv4EmptyPart true in (u', (NumErr false))
| _ :: _ -> (u, (parseIPv4Number_nonempty input))

(** val endsInANumber : cfg -> url -> str -> url * bool **)

let endsInANumber c u input =
  let parts = split (Npos (XO (XI (XI (XI (XO XH)))))) input in
  let parts0 =
    match last_opt parts with
    | Some s ->
      (match s with
       | [] -> if Z.eqb (len parts) (Zpos XH) then [] else drop_last parts
       | _ :: _ -> parts)
    | None -> parts
  in
  (match last_opt parts0 with
   | Some last ->
     (match last with
      | [] -> (u, false)
      | _ :: _ ->
        if all_in isDigit last
        then (u, true)
        else let (u', n0) = parseIPv4Number c u last in
             (match n0 with
              | NumOk (_, _) -> (u', true)
              | NumErr range -> (u', range)))
   | None -> (u, false))

(** val iPv4String : n -> str **)

let iPv4String a =
  app
    (itoa
      (N.div a (Npos (XO (XO (XO (XO (XO (XO (XO (XO (XO (XO (XO (XO (XO (XO
        (XO (XO (XO (XO (XO (XO (XO (XO (XO (XO XH)))))))))))))))))))))))))))
    (app ((Npos (XO (XI (XI (XI (XO XH)))))) :: [])
      (app
        (itoa
          (N.modulo
            (N.div a (Npos (XO (XO (XO (XO (XO (XO (XO (XO (XO (XO (XO (XO
              (XO (XO (XO (XO XH)))))))))))))))))) (Npos (XO (XO (XO (XO (XO
            (XO (XO (XO XH)))))))))))
        (app ((Npos (XO (XI (XI (XI (XO XH)))))) :: [])
          (app
            (itoa
              (N.modulo
                (N.div a (Npos (XO (XO (XO (XO (XO (XO (XO (XO XH))))))))))
                (Npos (XO (XO (XO (XO (XO (XO (XO (XO XH)))))))))))
            (app ((Npos (XO (XI (XI (XI (XO XH)))))) :: [])
              (itoa
                (N.modulo a (Npos (XO (XO (XO (XO (XO (XO (XO (XO XH))))))))))))))))

(** val ipv4_numbers : cfg -> url -> str list -> n list -> n list res **)

let rec ipv4_numbers c u parts acc =
  match parts with
  | [] -> Ok (u, (rev acc))
  | p :: rest ->
    let (u1, n0) = parseIPv4Number c u p in
    (match n0 with
     | NumOk (n1, ve) ->
       if ve
       then herr c u1 IPv4NonDecimalPart false (fun u2 ->
              ipv4_numbers c u2 rest (n1 :: acc))
       else ipv4_numbers c u1 rest (n1 :: acc)
     | NumErr _ ->
       herr c u1 IPv4NonNumericPart true (fun u2 ->
         ipv4_numbers c u2 rest (N0 :: acc)))

(** val ipv4_range_warn :
    cfg -> url -> n list -> (url -> str res) -> str res **)

let rec ipv4_range_warn c u ns k =
  match ns with
  | [] -> k u
  | n0 :: rest ->
    if N.ltb (Npos (XI (XI (XI (XI (XI (XI (XI XH)))))))) n0
    then herr c u IPv4OutOfRangePart false (fun u' ->
           ipv4_range_warn c u' rest k)
    else ipv4_range_warn c u rest k

(** val ipv4_sum : n list -> n -> n **)

let rec ipv4_sum ns counter =
  match ns with
  | [] -> N0
  | n0 :: rest ->
    N.add
      (N.mul n0
        (N.pow (Npos (XO (XO (XO (XO (XO (XO (XO (XO XH)))))))))
          (N.sub (Npos (XI XH)) counter)))
      (ipv4_sum rest (N.add counter (Npos XH)))

(** val parseIPv4 : cfg -> url -> str -> str res **)

let parseIPv4 c u input =
  let parts = split (Npos (XO (XI (XI (XI (XO XH)))))) input in
  let after_empty = fun u0 parts0 ->
    let k = fun u1 ->
      match ipv4_numbers c u1 parts0 [] with
      | Ok (u2, numbers) ->
        ipv4_range_warn c u2 numbers (fun u3 ->
          let init = drop_last numbers in
          if existsb (fun n0 ->
               N.ltb (Npos (XI (XI (XI (XI (XI (XI (XI XH)))))))) n0) init
          then herr c u3 IPv4OutOfRangePart true (fun u4 -> Ok (u4, []))
          else (match last_opt numbers with
                | Some lastn ->
                  if N.leb
                       (N.pow (Npos (XO (XO (XO (XO (XO (XO (XO (XO
                         XH)))))))))
                         (N.sub (Npos (XI (XO XH)))
                           (N.of_nat (length numbers)))) lastn
                  then herr c u3 IPv4OutOfRangePart true (fun u4 -> Ok (u4,
                         []))
                  else Ok (u3, (iPv4String (N.add lastn (ipv4_sum init N0))))
                | None -> Ok (u3, [])))
      | Er (u2, e) -> Er (u2, e)
    in
    if Z.ltb (Zpos (XO (XO XH))) (len parts0)
    then herr c u0 IPv4TooManyParts true k
    else k u0
  in
  (match last_opt parts with
   | Some s ->
     (match s with
      | [] ->
        herr c u IPv4EmptyPart false (fun u0 ->
          after_empty u0
            (if Z.ltb (Zpos XH) (len parts) then drop_last parts else parts))
      | _ :: _ -> after_empty u parts)
   | None -> after_empty u parts)

(** val zeros8 : n list **)

let zeros8 =
  N0 :: (N0 :: (N0 :: (N0 :: (N0 :: (N0 :: (N0 :: (N0 :: [])))))))

(** val set_nth : n list -> nat -> n -> n list **)

let rec set_nth l i v =
  match l with
  | [] -> []
  | x :: l' -> (match i with
                | O -> v :: l'
                | S i' -> x :: (set_nth l' i' v))

(** val get_nth : n list -> nat -> n **)

let get_nth l i =
  nth i l N0

(** val v4tail :
    n list -> nat -> n option -> nat -> n list -> ((nat * nat) * n list,
    etype) sum **)

let rec v4tail l seen piece pi addr =
  let store = fun p ->
    let addr' =
      set_nth addr pi
        (N.add
          (N.mul (get_nth addr pi) (Npos (XO (XO (XO (XO (XO (XO (XO (XO
            XH)))))))))) p)
    in
    let seen' = S seen in
    let pi' =
      if (||) (Nat.eqb seen' (S (S O))) (Nat.eqb seen' (S (S (S (S O)))))
      then S pi
      else pi
    in
    ((seen', pi'), addr')
  in
  (match l with
   | [] ->
     (match piece with
      | Some p -> Inl (store p)
      | None -> Inr IPv4InIPv6InvalidCodePoint)
   | ch :: rest ->
     (match piece with
      | Some p ->
        if isDigit ch
        then if N.eqb p N0
             then Inr IPv4InIPv6InvalidCodePoint
             else let p' =
                    N.add (N.mul p (Npos (XO (XI (XO XH))))) (hex_val ch)
                  in
                  if N.ltb (Npos (XI (XI (XI (XI (XI (XI (XI XH)))))))) p'
                  then Inr IPv4InIPv6OutOfRangePart
                  else v4tail rest seen (Some p') pi addr
        else let (p0, addr') = store p in
             let (seen', pi') = p0 in
             if (&&) (N.eqb ch (Npos (XO (XI (XI (XI (XO XH)))))))
                  (Nat.ltb seen' (S (S (S (S O)))))
             then v4tail rest seen' None pi' addr'
             else Inr IPv4InIPv6InvalidCodePoint
      | None ->
        if isDigit ch
        then v4tail rest seen (Some (hex_val ch)) pi addr
        else Inr IPv4InIPv6InvalidCodePoint))

(** val v6loop :
    n list -> nat -> nat option -> n list -> ((n * nat) * n list) option ->
    ((nat * nat option) * n list, etype) sum **)

let rec v6loop l pi comp addr cur =
  match l with
  | [] ->
    (match cur with
     | Some p ->
       let (p0, _) = p in
       let (v, _) = p0 in Inl (((S pi), comp), (set_nth addr pi v))
     | None -> Inl ((pi, comp), addr))
  | ch :: rest ->
    let start = match cur with
                | Some _ -> false
                | None -> true in
    if (&&) start (Nat.eqb pi (S (S (S (S (S (S (S (S O)))))))))
    then Inr IPv6TooManyPieces
    else if (&&) start (N.eqb ch (Npos (XO (XI (XO (XI (XI XH)))))))
         then (match comp with
               | Some _ -> Inr IPv6MultipleCompression
               | None -> v6loop rest (S pi) (Some (S pi)) addr None)
         else let (p, ps) = match cur with
                            | Some x -> x
                            | None -> ((N0, O), l)
              in
              let (v, ln) = p in
              if (&&) (Nat.ltb ln (S (S (S (S O))))) (isHexDigit ch)
              then v6loop rest pi comp addr (Some
                     (((N.add (N.mul v (Npos (XO (XO (XO (XO XH))))))
                         (hex_val ch)), (S ln)), ps))
              else if N.eqb ch (Npos (XO (XI (XI (XI (XO XH))))))
                   then if Nat.eqb ln O
                        then Inr IPv4InIPv6InvalidCodePoint
                        else if Nat.ltb (S (S (S (S (S (S O)))))) pi
                             then Inr IPv4InIPv6TooManyPieces
                             else (match v4tail ps O None pi addr with
                                   | Inl p0 ->
                                     let (p1, addr') = p0 in
                                     let (seen, pi') = p1 in
                                     if Nat.eqb seen (S (S (S (S O))))
                                     then Inl ((pi', comp), addr')
                                     else Inr IPv4InIPv6TooFewParts
                                   | Inr e -> Inr e)
                   else if N.eqb ch (Npos (XO (XI (XO (XI (XI XH))))))
                        then (match rest with
                              | [] -> Inr IPv6InvalidCodePoint
                              | _ :: _ ->
                                v6loop rest (S pi) comp (set_nth addr pi v)
                                  None)
                        else Inr IPv6InvalidCodePoint

(** val v6swap : n list -> nat -> nat -> nat -> n list **)

let rec v6swap addr pi comp swaps = match swaps with
| O -> addr
| S s' ->
  (match pi with
   | O -> addr
   | S pi' ->
     let j = sub (add comp swaps) (S O) in
     let a = get_nth addr pi in
     let b = get_nth addr j in
     v6swap (set_nth (set_nth addr pi b) j a) pi' comp s')

(** val ipv6_parse : n list -> (n list, etype) sum **)

let ipv6_parse l =
  let r =
    match l with
    | [] -> v6loop l O None zeros8 None
    | n0 :: l0 ->
      (match n0 with
       | N0 -> v6loop l O None zeros8 None
       | Npos p ->
         (match p with
          | XO p0 ->
            (match p0 with
             | XI p1 ->
               (match p1 with
                | XO p2 ->
                  (match p2 with
                   | XI p3 ->
                     (match p3 with
                      | XI p4 ->
                        (match p4 with
                         | XH ->
                           (match l0 with
                            | [] -> Inr IPv6InvalidCompression
                            | n1 :: rest ->
                              (match n1 with
                               | N0 -> Inr IPv6InvalidCompression
                               | Npos p5 ->
                                 (match p5 with
                                  | XO p6 ->
                                    (match p6 with
                                     | XI p7 ->
                                       (match p7 with
                                        | XO p8 ->
                                          (match p8 with
                                           | XI p9 ->
                                             (match p9 with
                                              | XI p10 ->
                                                (match p10 with
                                                 | XH ->
                                                   v6loop rest (S O) (Some (S
                                                     O)) zeros8 None
                                                 | _ ->
                                                   Inr IPv6InvalidCompression)
                                              | _ ->
                                                Inr IPv6InvalidCompression)
                                           | _ -> Inr IPv6InvalidCompression)
                                        | _ -> Inr IPv6InvalidCompression)
                                     | _ -> Inr IPv6InvalidCompression)
                                  | _ -> Inr IPv6InvalidCompression)))
                         | _ -> v6loop l O None zeros8 None)
                      | _ -> v6loop l O None zeros8 None)
                   | _ -> v6loop l O None zeros8 None)
                | _ -> v6loop l O None zeros8 None)
             | _ -> v6loop l O None zeros8 None)
          | _ -> v6loop l O None zeros8 None))
  in
  (match r with
   | Inl p ->
     let (p0, addr) = p in
     let (pi, o) = p0 in
     (match o with
      | Some comp ->
        Inl (v6swap addr (S (S (S (S (S (S (S O))))))) comp (sub pi comp))
      | None ->
        if Nat.eqb pi (S (S (S (S (S (S (S (S O))))))))
        then Inl addr
        else Inr IPv6TooFewPieces)
   | Inr e -> Inr e)

(** val v6_find :
    n list -> nat -> nat option -> nat -> nat option -> nat -> nat option **)

let rec v6_find l idx curIdx curLen best bestLen =
  match l with
  | [] ->
    if (&&) (Nat.ltb (S O) curLen) (Nat.ltb bestLen curLen)
    then curIdx
    else best
  | x :: l' ->
    if N.eqb x N0
    then v6_find l' (S idx)
           (match curIdx with
            | Some _ -> curIdx
            | None -> Some idx) (S curLen) best bestLen
    else if (&&) (Nat.ltb (S O) curLen) (Nat.ltb bestLen curLen)
         then v6_find l' (S idx) None O curIdx curLen
         else v6_find l' (S idx) None O best bestLen

(** val v6_print : n list -> nat -> nat option -> bool -> str **)

let rec v6_print l idx compress ignore0 =
  match l with
  | [] -> []
  | x :: l' ->
    if (&&) ignore0 (N.eqb x N0)
    then v6_print l' (S idx) compress true
    else if match compress with
            | Some ci -> Nat.eqb ci idx
            | None -> false
         then app
                (if Nat.eqb idx O
                 then (Npos (XO (XI (XO (XI (XI XH)))))) :: ((Npos (XO (XI
                        (XO (XI (XI XH)))))) :: [])
                 else (Npos (XO (XI (XO (XI (XI XH)))))) :: [])
                (v6_print l' (S idx) compress true)
         else app (fmt_hex x)
                (app
                  (if Nat.eqb idx (S (S (S (S (S (S (S O)))))))
                   then []
                   else (Npos (XO (XI (XO (XI (XI XH)))))) :: [])
                  (v6_print l' (S idx) compress false))

(** val iPv6String : n list -> str **)

let iPv6String addr =
  v6_print addr O (v6_find addr O None O None O) false

(** val parseIPv6 : cfg -> url -> str -> str res **)

let parseIPv6 c u input =
  match ipv6_parse (runes input) with
  | Inl addr ->
    Ok (u,
      (app ((Npos (XI (XI (XO (XI (XI (XO XH))))))) :: [])
        (app (iPv6String addr) ((Npos (XI (XO (XI (XI (XI (XO
          XH))))))) :: []))))
  | Inr t -> herr c u t true (fun u0 -> Ok (u0, []))

(** val invalid_pct : n list -> bool **)

let invalid_pct = function
| [] -> false
| n0 :: l0 ->
  (match n0 with
   | N0 -> false
   | Npos p ->
     (match p with
      | XI p0 ->
        (match p0 with
         | XO p1 ->
           (match p1 with
            | XI p2 ->
              (match p2 with
               | XO p3 ->
                 (match p3 with
                  | XO p4 ->
                    (match p4 with
                     | XH ->
                       (match l0 with
                        | [] -> true
                        | a :: l1 ->
                          (match l1 with
                           | [] -> true
                           | b :: _ ->
                             negb ((&&) (isHexDigit a) (isHexDigit b))))
                     | _ -> false)
                  | _ -> false)
               | _ -> false)
            | _ -> false)
         | _ -> false)
      | _ -> false))

(** val opaque_loop : cfg -> url -> str -> n list -> str -> str res **)

let rec opaque_loop c u input l out =
  match l with
  | [] -> Ok (u, out)
  | ch :: rest ->
    let k1 = fun u0 ->
      let k = fun u1 ->
        let k = fun u2 ->
          opaque_loop c u2 input rest
            (app out (percentEncodeRune c ch (Some pes_C0)))
        in
        if (&&) (N.eqb ch (Npos (XI (XO (XI (XO (XO XH))))))) (invalid_pct l)
        then herr c u1 InvalidURLUnit false k
        else k u1
      in
      if (&&) (negb (isURLCodePoint ch))
           (negb (N.eqb ch (Npos (XI (XO (XI (XO (XO XH))))))))
      then herr c u0 InvalidURLUnit false k
      else k u0
    in
    if isForbiddenHost ch
    then if c.c_lax
         then Ok (u, input)
         else herr c u HostInvalidCodePoint true k1
    else k1 u

(** val parseOpaqueHost : cfg -> url -> str -> str res **)

let parseOpaqueHost c u input =
  opaque_loop c u input (runes input) []

(** val only_ascii_no_puny : n list -> z -> bool **)

let rec only_ascii_no_puny l p =
  match l with
  | [] -> true
  | r :: l' ->
    if (&&)
         ((&&)
           ((&&) (N.leb (Npos (XO (XO (XO (XO (XO (XO (XO XH)))))))) r)
             (negb
               (N.eqb r (Npos (XO (XO (XO (XO (XO (XI (XI (XO (XO (XI (XO (XO
                 (XO XH)))))))))))))))))
           (negb
             (N.eqb r (Npos (XO (XI (XI (XI (XO (XI (XI (XO (XO (XI (XO (XO
               (XO XH)))))))))))))))))
         (negb
           (N.eqb r (Npos (XI (XI (XI (XI (XO (XI (XI (XO (XO (XI (XO (XO (XO
             XH))))))))))))))))
    then false
    else if N.eqb r (Npos (XO (XI (XI (XI (XO XH))))))
         then only_ascii_no_puny l' Z0
         else if (&&) (Z.eqb p Z0)
                   (N.eqb r (Npos (XO (XO (XO (XI (XI (XI XH))))))))
              then only_ascii_no_puny l' (Zpos XH)
              else if (&&) (Z.eqb p (Zpos XH))
                        (N.eqb r (Npos (XO (XI (XI (XI (XO (XI XH))))))))
                   then only_ascii_no_puny l' (Zpos (XO XH))
                   else if (&&) (Z.eqb p (Zpos (XO XH)))
                             (N.eqb r (Npos (XI (XO (XI (XI (XO XH)))))))
                        then only_ascii_no_puny l' (Zpos (XI XH))
                        else if (&&) (Z.eqb p (Zpos (XI XH)))
                                  (N.eqb r (Npos (XI (XO (XI (XI (XO XH)))))))
                             then false
                             else only_ascii_no_puny l' (Zneg XH)

(** val containsOnlyASCIIOrMiscAndNoPunycode : str -> bool **)

let containsOnlyASCIIOrMiscAndNoPunycode s =
  only_ascii_no_puny (map rune_lower (runes s)) Z0

(** val stringToUnicode : str -> str option **)

let stringToUnicode s =
  let rs = runes s in
  if forallb (fun r ->
       (&&) (N.ltb r (Npos (XO (XO (XO (XO (XO (XO (XO (XO XH))))))))))
         (N.ltb (Npos (XI (XI (XI (XI XH))))) r)) rs
  then Some rs
  else None

(** val toASCII : (str -> str * bool) -> cfg -> str -> str option **)

let toASCII idna_raw c src = match src with
| [] -> Some []
| _ :: _ ->
  let src0 =
    if c.c_latin1
    then (match stringToUnicode src with
          | Some s -> s
          | None -> src)
    else src
  in
  let (a, err) = idna_raw src0 in
  if (&&) err (containsOnlyASCIIOrMiscAndNoPunycode src0)
  then Some a
  else if (&&) err (negb c.c_lax)
       then None
       else if is_nil a then None else Some a

(** val collapse_dots : str -> str **)

let rec collapse_dots = function
| [] -> []
| x :: s' ->
  (match x with
   | N0 -> x :: (collapse_dots s')
   | Npos p ->
     (match p with
      | XO p0 ->
        (match p0 with
         | XI p1 ->
           (match p1 with
            | XI p2 ->
              (match p2 with
               | XI p3 ->
                 (match p3 with
                  | XO p4 ->
                    (match p4 with
                     | XH ->
                       (match s' with
                        | [] -> x :: (collapse_dots s')
                        | n0 :: _ ->
                          (match n0 with
                           | N0 -> x :: (collapse_dots s')
                           | Npos p5 ->
                             (match p5 with
                              | XO p6 ->
                                (match p6 with
                                 | XI p7 ->
                                   (match p7 with
                                    | XI p8 ->
                                      (match p8 with
                                       | XI p9 ->
                                         (match p9 with
                                          | XO p10 ->
                                            (match p10 with
                                             | XH -> collapse_dots s'
                                             | _ -> x :: (collapse_dots s'))
                                          | _ -> x :: (collapse_dots s'))
                                       | _ -> x :: (collapse_dots s'))
                                    | _ -> x :: (collapse_dots s'))
                                 | _ -> x :: (collapse_dots s'))
                              | _ -> x :: (collapse_dots s'))))
                     | _ -> x :: (collapse_dots s'))
                  | _ -> x :: (collapse_dots s'))
               | _ -> x :: (collapse_dots s'))
            | _ -> x :: (collapse_dots s'))
         | _ -> x :: (collapse_dots s'))
      | _ -> x :: (collapse_dots s')))

(** val hostfun_gsb : str -> str **)

let hostfun_gsb h =
  collapse_dots (trim_set ((Npos (XO (XI (XI (XI (XO XH)))))) :: []) h)

(** val hostfun_sem : str -> str **)

let hostfun_sem h = match h with
| [] -> []
| _ :: _ ->
  let h' = hostfun_gsb h in
  (match h' with
   | [] ->
     (Npos (XO (XO (XO (XO (XI XH)))))) :: ((Npos (XO (XI (XI (XI (XO
       XH)))))) :: ((Npos (XO (XO (XO (XO (XI XH)))))) :: ((Npos (XO (XI (XI
       (XI (XO XH)))))) :: ((Npos (XO (XO (XO (XO (XI XH)))))) :: ((Npos (XO
       (XI (XI (XI (XO XH)))))) :: ((Npos (XO (XO (XO (XO (XI
       XH)))))) :: []))))))
   | _ :: _ -> h')

(** val apply_hostfun : hostfun -> str -> str **)

let apply_hostfun f h =
  match f with
  | HF_none -> h
  | HF_gsb -> hostfun_gsb h
  | HF_sem -> hostfun_sem h
  | HF_fun g -> g h

(** val parseHost :
    (str -> str * bool) -> cfg -> url -> str -> bool -> str res **)

let parseHost idna_raw c u input isNotSpecial =
  let input0 = apply_hostfun c.c_pre input in
  (match input0 with
   | [] -> Ok (u, [])
   | n0 :: _ ->
     (match n0 with
      | N0 ->
        if isNotSpecial
        then parseOpaqueHost c u input0
        else let domain = decodePercentEncoded c input0 in
             let k_valid = fun u0 ->
               match toASCII idna_raw c domain with
               | Some asciiDomain ->
                 let forbidden = existsb isForbiddenDomain (runes asciiDomain)
                 in
                 let k_clean = fun u1 ->
                   let (u2, b) = endsInANumber c u1 asciiDomain in
                   if b
                   then parseIPv4 c u2 asciiDomain
                   else Ok (u2, (apply_hostfun c.c_post asciiDomain))
                 in
                 if forbidden
                 then if c.c_lax
                      then Ok (u0,
                             (percentEncodeString c asciiDomain pes_Host))
                      else herr c u0 DomainInvalidCodePoint true k_clean
                 else k_clean u0
               | None ->
                 if c.c_lax
                 then Ok (u0, domain)
                 else herr c u0 DomainToASCII true (fun u1 -> Ok (u1, []))
             in
             if negb (valid_utf8 domain)
             then if c.c_lax
                  then Ok (u, (percentEncodeBytes input0 pes_Host))
                  else herr c u DomainToASCII true k_valid
             else k_valid u
      | Npos p ->
        (match p with
         | XI p0 ->
           (match p0 with
            | XI p1 ->
              (match p1 with
               | XO p2 ->
                 (match p2 with
                  | XI p3 ->
                    (match p3 with
                     | XI p4 ->
                       (match p4 with
                        | XO p5 ->
                          (match p5 with
                           | XH ->
                             let k = fun u0 ->
                               parseIPv6 c u0 (drop_last (tl input0))
                             in
                             if negb
                                  (has_suffix ((Npos (XI (XO (XI (XI (XI (XO
                                    XH))))))) :: []) input0)
                             then herr c u IPv6Unclosed true k
                             else k u
                           | _ ->
                             if isNotSpecial
                             then parseOpaqueHost c u input0
                             else let domain = decodePercentEncoded c input0
                                  in
                                  let k_valid = fun u0 ->
                                    match toASCII idna_raw c domain with
                                    | Some asciiDomain ->
                                      let forbidden =
                                        existsb isForbiddenDomain
                                          (runes asciiDomain)
                                      in
                                      let k_clean = fun u1 ->
                                        let (u2, b) =
                                          endsInANumber c u1 asciiDomain
                                        in
                                        if b
                                        then parseIPv4 c u2 asciiDomain
                                        else Ok (u2,
                                               (apply_hostfun c.c_post
                                                 asciiDomain))
                                      in
                                      if forbidden
                                      then if c.c_lax
                                           then Ok (u0,
                                                  (percentEncodeString c
                                                    asciiDomain pes_Host))
                                           else herr c u0
                                                  DomainInvalidCodePoint true
                                                  k_clean
                                      else k_clean u0
                                    | None ->
                                      if c.c_lax
                                      then Ok (u0, domain)
                                      else herr c u0 DomainToASCII true
                                             (fun u1 -> Ok (u1, []))
                                  in
                                  if negb (valid_utf8 domain)
                                  then if c.c_lax
                                       then Ok (u,
                                              (percentEncodeBytes input0
                                                pes_Host))
                                       else herr c u DomainToASCII true
                                              k_valid
                                  else k_valid u)
                        | _ ->
                          if isNotSpecial
                          then parseOpaqueHost c u input0
                          else let domain = decodePercentEncoded c input0 in
                               let k_valid = fun u0 ->
                                 match toASCII idna_raw c domain with
                                 | Some asciiDomain ->
                                   let forbidden =
                                     existsb isForbiddenDomain
                                       (runes asciiDomain)
                                   in
                                   let k_clean = fun u1 ->
                                     let (u2, b) =
                                       endsInANumber c u1 asciiDomain
                                     in
                                     if b
                                     then parseIPv4 c u2 asciiDomain
                                     else Ok (u2,
                                            (apply_hostfun c.c_post
                                              asciiDomain))
                                   in
                                   if forbidden
                                   then if c.c_lax
                                        then Ok (u0,
                                               (percentEncodeString c
                                                 asciiDomain pes_Host))
                                        else herr c u0 DomainInvalidCodePoint
                                               true k_clean
                                   else k_clean u0
                                 | None ->
                                   if c.c_lax
                                   then Ok (u0, domain)
                                   else herr c u0 DomainToASCII true
                                          (fun u1 -> Ok (u1, []))
                               in
                               if negb (valid_utf8 domain)
                               then if c.c_lax
                                    then Ok (u,
                                           (percentEncodeBytes input0
                                             pes_Host))
                                    else herr c u DomainToASCII true k_valid
                               else k_valid u)
                     | _ ->
                       if isNotSpecial
                       then parseOpaqueHost c u input0
                       else let domain = decodePercentEncoded c input0 in
                            let k_valid = fun u0 ->
                              match toASCII idna_raw c domain with
                              | Some asciiDomain ->
                                let forbidden =
                                  existsb isForbiddenDomain
                                    (runes asciiDomain)
                                in
                                let k_clean = fun u1 ->
                                  let (u2, b) = endsInANumber c u1 asciiDomain
                                  in
                                  if b
                                  then parseIPv4 c u2 asciiDomain
                                  else Ok (u2,
                                         (apply_hostfun c.c_post asciiDomain))
                                in
                                if forbidden
                                then if c.c_lax
                                     then Ok (u0,
                                            (percentEncodeString c
                                              asciiDomain pes_Host))
                                     else herr c u0 DomainInvalidCodePoint
                                            true k_clean
                                else k_clean u0
                              | None ->
                                if c.c_lax
                                then Ok (u0, domain)
                                else herr c u0 DomainToASCII true (fun u1 ->
                                       Ok (u1, []))
                            in
                            if negb (valid_utf8 domain)
                            then if c.c_lax
                                 then Ok (u,
                                        (percentEncodeBytes input0 pes_Host))
                                 else herr c u DomainToASCII true k_valid
                            else k_valid u)
                  | _ ->
                    if isNotSpecial
                    then parseOpaqueHost c u input0
                    else let domain = decodePercentEncoded c input0 in
                         let k_valid = fun u0 ->
                           match toASCII idna_raw c domain with
                           | Some asciiDomain ->
                             let forbidden =
                               existsb isForbiddenDomain (runes asciiDomain)
                             in
                             let k_clean = fun u1 ->
                               let (u2, b) = endsInANumber c u1 asciiDomain in
                               if b
                               then parseIPv4 c u2 asciiDomain
                               else Ok (u2,
                                      (apply_hostfun c.c_post asciiDomain))
                             in
                             if forbidden
                             then if c.c_lax
                                  then Ok (u0,
                                         (percentEncodeString c asciiDomain
                                           pes_Host))
                                  else herr c u0 DomainInvalidCodePoint true
                                         k_clean
                             else k_clean u0
                           | None ->
                             if c.c_lax
                             then Ok (u0, domain)
                             else herr c u0 DomainToASCII true (fun u1 -> Ok
                                    (u1, []))
                         in
                         if negb (valid_utf8 domain)
                         then if c.c_lax
                              then Ok (u,
                                     (percentEncodeBytes input0 pes_Host))
                              else herr c u DomainToASCII true k_valid
                         else k_valid u)
               | _ ->
                 if isNotSpecial
                 then parseOpaqueHost c u input0
                 else let domain = decodePercentEncoded c input0 in
                      let k_valid = fun u0 ->
                        match toASCII idna_raw c domain with
                        | Some asciiDomain ->
                          let forbidden =
                            existsb isForbiddenDomain (runes asciiDomain)
                          in
                          let k_clean = fun u1 ->
                            let (u2, b) = endsInANumber c u1 asciiDomain in
                            if b
                            then parseIPv4 c u2 asciiDomain
                            else Ok (u2, (apply_hostfun c.c_post asciiDomain))
                          in
                          if forbidden
                          then if c.c_lax
                               then Ok (u0,
                                      (percentEncodeString c asciiDomain
                                        pes_Host))
                               else herr c u0 DomainInvalidCodePoint true
                                      k_clean
                          else k_clean u0
                        | None ->
                          if c.c_lax
                          then Ok (u0, domain)
                          else herr c u0 DomainToASCII true (fun u1 -> Ok
                                 (u1, []))
                      in
                      if negb (valid_utf8 domain)
                      then if c.c_lax
                           then Ok (u, (percentEncodeBytes input0 pes_Host))
                           else herr c u DomainToASCII true k_valid
                      else k_valid u)
            | _ ->
              if isNotSpecial
              then parseOpaqueHost c u input0
              else let domain = decodePercentEncoded c input0 in
                   let k_valid = fun u0 ->
                     match toASCII idna_raw c domain with
                     | Some asciiDomain ->
                       let forbidden =
                         existsb isForbiddenDomain (runes asciiDomain)
                       in
                       let k_clean = fun u1 ->
                         let (u2, b) = endsInANumber c u1 asciiDomain in
                         if b
                         then parseIPv4 c u2 asciiDomain
                         else Ok (u2, (apply_hostfun c.c_post asciiDomain))
                       in
                       if forbidden
                       then if c.c_lax
                            then Ok (u0,
                                   (percentEncodeString c asciiDomain
                                     pes_Host))
                            else herr c u0 DomainInvalidCodePoint true k_clean
                       else k_clean u0
                     | None ->
                       if c.c_lax
                       then Ok (u0, domain)
                       else herr c u0 DomainToASCII true (fun u1 -> Ok (u1,
                              []))
                   in
                   if negb (valid_utf8 domain)
                   then if c.c_lax
                        then Ok (u, (percentEncodeBytes input0 pes_Host))
                        else herr c u DomainToASCII true k_valid
                   else k_valid u)
         | _ ->
           if isNotSpecial
           then parseOpaqueHost c u input0
           else let domain = decodePercentEncoded c input0 in
                let k_valid = fun u0 ->
                  match toASCII idna_raw c domain with
                  | Some asciiDomain ->
                    let forbidden =
                      existsb isForbiddenDomain (runes asciiDomain)
                    in
                    let k_clean = fun u1 ->
                      let (u2, b) = endsInANumber c u1 asciiDomain in
                      if b
                      then parseIPv4 c u2 asciiDomain
                      else Ok (u2, (apply_hostfun c.c_post asciiDomain))
                    in
                    if forbidden
                    then if c.c_lax
                         then Ok (u0,
                                (percentEncodeString c asciiDomain pes_Host))
                         else herr c u0 DomainInvalidCodePoint true k_clean
                    else k_clean u0
                  | None ->
                    if c.c_lax
                    then Ok (u0, domain)
                    else herr c u0 DomainToASCII true (fun u1 -> Ok (u1, []))
                in
                if negb (valid_utf8 domain)
                then if c.c_lax
                     then Ok (u, (percentEncodeBytes input0 pes_Host))
                     else herr c u DomainToASCII true k_valid
                else k_valid u)))

type state =
| SchemeStart
| Scheme
| NoScheme
| OpaquePath
| SpecialRelativeOrAuthority
| SpecialAuthoritySlashes
| SpecialAuthorityIgnoreSlashes
| PathOrAuthority
| Authority
| HostSt
| HostnameSt
| File
| FileHost
| FileSlash
| PortSt
| PathSt
| PathStart
| QuerySt
| FragmentSt
| Relative
| RelativeSlash

type mstate = { m_state : state; m_ptr : z; m_eof : bool; m_buf : str;
                m_at : bool; m_br : bool; m_pw : bool; m_url : url }

type outcome =
| Cont of mstate
| RetUrl of url
| RetErr of url * verr
| RetNilNil of url
| Panic

(** val mk :
    state -> z -> bool -> str -> bool -> bool -> bool -> url -> mstate **)

let mk st p e b a br pw u =
  { m_state = st; m_ptr = p; m_eof = e; m_buf = b; m_at = a; m_br = br;
    m_pw = pw; m_url = u }

(** val mherr : cfg -> url -> etype -> bool -> (url -> outcome) -> outcome **)

let mherr c u t failure k =
  let (u', oe) = handleError c u t failure in
  (match oe with
   | Some e -> RetErr (u', e)
   | None -> k u')

(** val isSingleDotPathSegment : str -> bool **)

let isSingleDotPathSegment s =
  (||) (str_eqb s ((Npos (XO (XI (XI (XI (XO XH)))))) :: []))
    (str_eqb (str_lower s) ((Npos (XI (XO (XI (XO (XO XH)))))) :: ((Npos (XO
      (XI (XO (XO (XI XH)))))) :: ((Npos (XI (XO (XI (XO (XO (XI
      XH))))))) :: []))))

(** val isDoubleDotPathSegment : str -> bool **)

let isDoubleDotPathSegment s =
  (||)
    (str_eqb s ((Npos (XO (XI (XI (XI (XO XH)))))) :: ((Npos (XO (XI (XI (XI
      (XO XH)))))) :: [])))
    (let l = str_lower s in
     (||)
       ((||)
         (str_eqb l ((Npos (XO (XI (XI (XI (XO XH)))))) :: ((Npos (XI (XO (XI
           (XO (XO XH)))))) :: ((Npos (XO (XI (XO (XO (XI XH)))))) :: ((Npos
           (XI (XO (XI (XO (XO (XI XH))))))) :: [])))))
         (str_eqb l ((Npos (XI (XO (XI (XO (XO XH)))))) :: ((Npos (XO (XI (XO
           (XO (XI XH)))))) :: ((Npos (XI (XO (XI (XO (XO (XI
           XH))))))) :: ((Npos (XO (XI (XI (XI (XO XH)))))) :: []))))))
       (str_eqb l ((Npos (XI (XO (XI (XO (XO XH)))))) :: ((Npos (XO (XI (XO
         (XO (XI XH)))))) :: ((Npos (XI (XO (XI (XO (XO (XI
         XH))))))) :: ((Npos (XI (XO (XI (XO (XO XH)))))) :: ((Npos (XO (XI
         (XO (XO (XI XH)))))) :: ((Npos (XI (XO (XI (XO (XO (XI
         XH))))))) :: []))))))))

(** val overridden : state option -> bool **)

let overridden =
  is_some

(** val n_inp : rune list -> z **)

let n_inp =
  len

(** val cp_at : rune list -> z -> n **)

let cp_at inp p =
  if Z.ltb p Z0
  then rune_error
  else (match nth_opt inp (Z.to_nat p) with
        | Some r -> rv r
        | None -> rune_error)

(** val rune_at : rune list -> z -> rune option **)

let rune_at inp p =
  if Z.ltb p Z0 then None else nth_opt inp (Z.to_nat p)

(** val rest_from : rune list -> z -> n list **)

let rest_from inp p =
  map rv (skipn (Z.to_nat p) inp)

(** val remainingStartsWith : rune list -> z -> bool -> n list -> bool **)

let remainingStartsWith inp p eof s =
  if eof
  then false
  else list_eqb N.eqb (firstn (length s) (rest_from inp (Z.add p (Zpos XH))))
         s

(** val remainingFromPointer : rune list -> z -> bool -> str **)

let remainingFromPointer inp p = function
| true -> []
| false -> encode_runes (rest_from inp p)

(** val addSegment : url -> str -> url **)

let addSegment u s =
  set_path u (app u.u_path (s :: [])) false

(** val copy_base_auth : url -> url -> url **)

let copy_base_auth u b =
  set_port
    (set_host (set_password (set_username u b.u_username) b.u_password)
      b.u_host) b.u_port b.u_decodedPort

(** val cred_loop :
    cfg -> n list -> bool -> str -> str -> (bool * str) * str **)

let rec cred_loop c l pw user pass =
  match l with
  | [] -> ((pw, user), pass)
  | ch :: l' ->
    if (&&) (N.eqb ch (Npos (XO (XI (XO (XI (XI XH))))))) (negb pw)
    then cred_loop c l' true user pass
    else let enc = percentEncodeRune c ch (Some pes_UserInfo) in
         if pw
         then cred_loop c l' pw user (app pass enc)
         else cred_loop c l' pw (app user enc) pass

(** val step :
    (str -> str * bool) -> cfg -> rune list -> url option -> state option ->
    mstate -> outcome **)

let step idna_raw c inp base override m =
  let st = m.m_state in
  let buf = m.m_buf in
  let atF = m.m_at in
  let brF = m.m_br in
  let pwF = m.m_pw in
  let u = m.m_url in
  let p = Z.add m.m_ptr (Zpos XH) in
  let eof = if Z.leb (n_inp inp) p then true else m.m_eof in
  let r = if Z.leb (n_inp inp) p then rune_error else cp_at inp p in
  let special = fun u0 -> isSpecialScheme0 c u0 in
  let sab = fun u0 -> isSpecialSchemeAndBackslash c u0 r in
  let go = fun st' u' -> Cont (mk st' p eof buf atF brF pwF u') in
  let go_rw = fun st' u' -> Cont
    (mk st' (Z.sub p (Zpos XH)) false buf atF brF pwF u')
  in
  let url_unit_checks = fun u0 k ->
    let k' = fun u1 ->
      let inv = invalid_pct (rest_from inp p) in
      if inv then mherr c u1 InvalidURLUnit false (k true) else k false u1
    in
    if (&&) (negb (isURLCodePoint r))
         (negb (N.eqb r (Npos (XI (XO (XI (XO (XO XH))))))))
    then mherr c u0 InvalidURLUnit false k'
    else k' u0
  in
  (match st with
   | SchemeStart ->
     if isAlpha r
     then Cont
            (mk Scheme p eof (app buf (utf8_enc (ascii_lower r))) atF brF pwF
              u)
     else if negb (overridden override)
          then go_rw NoScheme u
          else mherr c u InvalidURLUnit true (go st)
   | Scheme ->
     if (||)
          ((||)
            ((||) (isAlnum r) (N.eqb r (Npos (XI (XI (XO (XI (XO XH))))))))
            (N.eqb r (Npos (XI (XO (XI (XI (XO XH))))))))
          (N.eqb r (Npos (XO (XI (XI (XI (XO XH)))))))
     then Cont
            (mk Scheme p eof (app buf (utf8_enc (ascii_lower r))) atF brF pwF
              u)
     else if N.eqb r (Npos (XO (XI (XO (XI (XI XH))))))
          then let early =
                 (&&) (overridden override)
                   ((||)
                     ((||)
                       ((||)
                         ((&&) (isSpecialScheme c u.u_scheme)
                           (negb (isSpecialScheme c buf)))
                         ((&&) (negb (isSpecialScheme c u.u_scheme))
                           (isSpecialScheme c buf)))
                       ((&&)
                         ((||)
                           ((||) (negb (is_nil u.u_username))
                             (negb (is_nil u.u_password))) (is_some u.u_port))
                         (str_eqb buf s_file)))
                     ((&&) (str_eqb u.u_scheme s_file)
                       (match u.u_host with
                        | Some h -> is_nil h
                        | None -> true)))
               in
               if early
               then RetUrl u
               else let u0 = set_scheme u buf in
                    if overridden override
                    then RetUrl (cleanDefaultPort c u0)
                    else if str_eqb u0.u_scheme s_file
                         then let k = fun u1 -> Cont
                                (mk File p eof [] atF brF pwF u1)
                              in
                              if negb
                                   (remainingStartsWith inp p eof ((Npos (XI
                                     (XI (XI (XI (XO XH)))))) :: ((Npos (XI
                                     (XI (XI (XI (XO XH)))))) :: [])))
                              then mherr c u0
                                     SpecialSchemeMissingFollowingSolidus
                                     false k
                              else k u0
                         else if (&&) (special u0)
                                   (match base with
                                    | Some b -> str_eqb b.u_scheme u0.u_scheme
                                    | None -> false)
                              then Cont
                                     (mk SpecialRelativeOrAuthority p eof []
                                       atF brF pwF u0)
                              else if special u0
                                   then Cont
                                          (mk SpecialAuthoritySlashes p eof
                                            [] atF brF pwF u0)
                                   else if remainingStartsWith inp p eof
                                             ((Npos (XI (XI (XI (XI (XO
                                             XH)))))) :: [])
                                        then let p2 = Z.add p (Zpos XH) in
                                             Cont
                                             (mk PathOrAuthority p2
                                               (if Z.leb (n_inp inp) p2
                                                then true
                                                else eof) [] atF brF pwF u0)
                                        else Cont
                                               (mk OpaquePath p eof [] atF
                                                 brF pwF
                                                 (set_path u0 ([] :: []) true))
          else if negb (overridden override)
               then Cont (mk NoScheme (Zneg XH) false [] atF brF pwF u)
               else mherr c u InvalidURLUnit true (go st)
   | NoScheme ->
     (match base with
      | Some b ->
        if (&&) b.u_opaque (negb (N.eqb r (Npos (XI (XI (XO (XO (XO XH))))))))
        then mherr c u MissingSchemeNonRelativeURL true (go st)
        else if (&&) b.u_opaque (N.eqb r (Npos (XI (XI (XO (XO (XO XH)))))))
             then go FragmentSt
                    (set_fragment
                      (set_query
                        (set_path (set_scheme u b.u_scheme) b.u_path
                          b.u_opaque) b.u_query) (Some []))
             else if negb (str_eqb b.u_scheme s_file)
                  then go_rw Relative u
                  else go_rw File u
      | None -> mherr c u MissingSchemeNonRelativeURL true (go st))
   | OpaquePath ->
     if N.eqb r (Npos (XI (XI (XI (XI (XI XH))))))
     then Cont (mk QuerySt p eof [] atF brF pwF (set_query u (Some [])))
     else if N.eqb r (Npos (XI (XI (XO (XO (XO XH))))))
          then Cont
                 (mk FragmentSt p eof [] atF brF pwF
                   (set_fragment u (Some [])))
          else if negb eof
               then url_unit_checks u (fun inv u0 ->
                      let enc =
                        if inv
                        then percentEncodeInvalidRune c r pes_C0
                        else percentEncodeRune c r (Some pes_C0)
                      in
                      let buf' = app buf enc in
                      Cont
                      (mk st p eof buf' atF brF pwF
                        (set_path u0 (buf' :: []) true)))
               else go st u
   | SpecialRelativeOrAuthority ->
     if (&&) (N.eqb r (Npos (XI (XI (XI (XI (XO XH)))))))
          (remainingStartsWith inp p eof ((Npos (XI (XI (XI (XI (XO
            XH)))))) :: []))
     then let p2 = Z.add p (Zpos XH) in
          Cont
          (mk SpecialAuthorityIgnoreSlashes p2
            (if Z.leb (n_inp inp) p2 then true else eof) buf atF brF pwF u)
     else mherr c u SpecialSchemeMissingFollowingSolidus false
            (go_rw Relative)
   | SpecialAuthoritySlashes ->
     if (&&) (N.eqb r (Npos (XI (XI (XI (XI (XO XH)))))))
          (remainingStartsWith inp p eof ((Npos (XI (XI (XI (XI (XO
            XH)))))) :: []))
     then let p2 = Z.add p (Zpos XH) in
          Cont
          (mk SpecialAuthorityIgnoreSlashes p2
            (if Z.leb (n_inp inp) p2 then true else eof) buf atF brF pwF u)
     else mherr c u SpecialSchemeMissingFollowingSolidus false
            (go_rw SpecialAuthorityIgnoreSlashes)
   | SpecialAuthorityIgnoreSlashes ->
     if (&&) (negb (N.eqb r (Npos (XI (XI (XI (XI (XO XH))))))))
          (negb (N.eqb r (Npos (XO (XO (XI (XI (XI (XO XH)))))))))
     then go_rw Authority u
     else mherr c u SpecialSchemeMissingFollowingSolidus false (go st)
   | PathOrAuthority ->
     if N.eqb r (Npos (XI (XI (XI (XI (XO XH))))))
     then go Authority u
     else go_rw PathSt u
   | Authority ->
     if N.eqb r (Npos (XO (XO (XO (XO (XO (XO XH)))))))
     then mherr c u InvalidCredentials false (fun u0 ->
            let buf' =
              if atF
              then app ((Npos (XI (XO (XI (XO (XO XH)))))) :: ((Npos (XO (XO
                     (XI (XO (XI XH)))))) :: ((Npos (XO (XO (XO (XO (XI
                     XH)))))) :: []))) buf
              else buf
            in
            let (p0, pass') =
              cred_loop c (runes buf') pwF u0.u_username u0.u_password
            in
            let (pw', user') = p0 in
            Cont
            (mk st p eof [] true brF pw'
              (set_password (set_username u0 user') pass')))
     else if (||)
               ((||)
                 ((||)
                   ((||) eof (N.eqb r (Npos (XI (XI (XI (XI (XO XH))))))))
                   (N.eqb r (Npos (XI (XI (XI (XI (XI XH))))))))
                 (N.eqb r (Npos (XI (XI (XO (XO (XO XH)))))))) (sab u)
          then let k = fun u0 -> Cont
                 (mk HostSt (Z.sub p (Z.add (len (runes buf)) (Zpos XH)))
                   false [] atF brF pwF u0)
               in
               if (&&) atF (is_nil buf)
               then mherr c u InvalidCredentials true k
               else k u
          else Cont (mk st p eof (app buf (utf8_enc r)) atF brF pwF u)
   | File ->
     let u0 = set_host (set_scheme u s_file) (Some []) in
     if (||) (N.eqb r (Npos (XI (XI (XI (XI (XO XH)))))))
          (N.eqb r (Npos (XO (XO (XI (XI (XI (XO XH))))))))
     then let k = go FileSlash in
          if N.eqb r (Npos (XO (XO (XI (XI (XI (XO XH)))))))
          then mherr c u0 InvalidReverseSolidus false k
          else k u0
     else (match base with
           | Some b ->
             if str_eqb b.u_scheme s_file
             then let u1 =
                    set_query
                      (set_path (set_host u0 b.u_host) b.u_path b.u_opaque)
                      b.u_query
                  in
                  if N.eqb r (Npos (XI (XI (XI (XI (XI XH))))))
                  then go QuerySt (set_query u1 (Some []))
                  else if N.eqb r (Npos (XI (XI (XO (XO (XO XH))))))
                       then go FragmentSt (set_fragment u1 (Some []))
                       else if negb eof
                            then let u2 = set_query u1 None in
                                 if negb
                                      (startsWithAWindowsDriveLetter
                                        (remainingFromPointer inp p eof))
                                 then go_rw PathSt
                                        (set_path u2
                                          (shortenPath u2.u_scheme u2.u_path)
                                          u2.u_opaque)
                                 else mherr c u2
                                        FileInvalidWindowsDriveLetter false
                                        (fun u3 ->
                                        go_rw PathSt (set_path u3 [] false))
                            else go st u1
             else go_rw PathSt u0
           | None -> go_rw PathSt u0)
   | FileHost ->
     if (||)
          ((||)
            ((||) ((||) eof (N.eqb r (Npos (XI (XI (XI (XI (XO XH))))))))
              (N.eqb r (Npos (XO (XO (XI (XI (XI (XO XH)))))))))
            (N.eqb r (Npos (XI (XI (XI (XI (XI XH))))))))
          (N.eqb r (Npos (XI (XI (XO (XO (XO XH)))))))
     then if (&&) (negb (overridden override)) (isWindowsDriveLetter buf)
          then mherr c u FileInvalidWindowsDriveLetterHost false
                 (go_rw PathSt)
          else if is_nil buf
               then let u0 = set_host u (Some []) in
                    if overridden override
                    then RetNilNil u0
                    else go_rw PathStart u0
               else (match parseHost idna_raw c u buf (negb (special u)) with
                     | Ok (u0, host0) ->
                       let host1 =
                         if str_eqb host0 s_localhost then [] else host0
                       in
                       let u1 = set_host u0 (Some host1) in
                       if overridden override
                       then RetUrl u1
                       else Cont
                              (mk PathStart (Z.sub p (Zpos XH)) false [] atF
                                brF pwF u1)
                     | Er (u0, e) -> RetErr (u0, e))
     else Cont (mk st p eof (app buf (utf8_enc r)) atF brF pwF u)
   | FileSlash ->
     if (||) (N.eqb r (Npos (XI (XI (XI (XI (XO XH)))))))
          (N.eqb r (Npos (XO (XO (XI (XI (XI (XO XH))))))))
     then let k = go FileHost in
          if N.eqb r (Npos (XO (XO (XI (XI (XI (XO XH)))))))
          then mherr c u InvalidReverseSolidus false k
          else k u
     else let u0 =
            match base with
            | Some b ->
              if str_eqb b.u_scheme s_file
              then let u0 = set_host u b.u_host in
                   (match b.u_path with
                    | [] -> u0
                    | seg0 :: _ ->
                      if (&&)
                           (negb
                             (startsWithAWindowsDriveLetter
                               (remainingFromPointer inp p eof)))
                           (isNormalizedWindowsDriveLetter seg0)
                      then addSegment u0 seg0
                      else u0)
              else u
            | None -> u
          in
          go_rw PathSt u0
   | PortSt ->
     if isDigit r
     then Cont (mk st p eof (app buf (utf8_enc r)) atF brF pwF u)
     else if (||)
               ((||)
                 ((||)
                   ((||)
                     ((||) eof (N.eqb r (Npos (XI (XI (XI (XI (XO XH))))))))
                     (N.eqb r (Npos (XI (XI (XI (XI (XI XH))))))))
                   (N.eqb r (Npos (XI (XI (XO (XO (XO XH)))))))) (sab u))
               (overridden override)
          then let k_after = fun u0 buf0 ->
                 if overridden override
                 then RetUrl u0
                 else Cont
                        (mk PathStart (Z.sub p (Zpos XH)) false buf0 atF brF
                          pwF u0)
               in
               if negb (is_nil buf)
               then let port0 = digits_val (Npos (XO (XI (XO XH)))) buf in
                    let k = fun u0 ->
                      k_after
                        (cleanDefaultPort c
                          (set_port u0 (Some (itoa port0)) port0)) []
                    in
                    if N.ltb (Npos (XI (XI (XI (XI (XI (XI (XI (XI (XI (XI
                         (XI (XI (XI (XI (XI XH)))))))))))))))) port0
                    then mherr c u PortOutOfRange true k
                    else k u
               else if overridden override
                    then mherr c u PortMissing true (fun u0 -> k_after u0 buf)
                    else k_after u buf
          else mherr c u PortInvalid true (go st)
   | PathSt ->
     if (||)
          ((||) ((||) eof (N.eqb r (Npos (XI (XI (XI (XI (XO XH))))))))
            (sab u))
          ((&&) (negb (overridden override))
            ((||) (N.eqb r (Npos (XI (XI (XI (XI (XI XH)))))))
              (N.eqb r (Npos (XI (XI (XO (XO (XO XH)))))))))
     then let k = fun u0 ->
            let slashlike =
              (||) (N.eqb r (Npos (XI (XI (XI (XI (XO XH))))))) (sab u0)
            in
            let path = u0.u_path in
            let replaceLast =
              (&&)
                ((&&) ((&&) c.c_collapse (special u0)) (negb (is_nil path)))
                (match last_opt path with
                 | Some s -> is_nil s
                 | None -> false)
            in
            let u1 =
              if isDoubleDotPathSegment buf
              then let u1 =
                     set_path u0 (shortenPath u0.u_scheme path) u0.u_opaque
                   in
                   if negb slashlike then addSegment u1 [] else u1
              else if (&&) (isSingleDotPathSegment buf) (negb slashlike)
                   then if negb replaceLast then addSegment u0 [] else u0
                   else if negb (isSingleDotPathSegment buf)
                        then let buf' =
                               if (&&)
                                    ((&&)
                                      ((&&) (str_eqb u0.u_scheme s_file)
                                        ((||) (is_nil path)
                                          ((&&) replaceLast
                                            (Z.eqb (len path) (Zpos XH)))))
                                      (isWindowsDriveLetter buf))
                                    (negb c.c_skipDrive)
                               then (match buf with
                                     | [] -> buf
                                     | b0 :: _ ->
                                       b0 :: ((Npos (XO (XI (XO (XI (XI
                                         XH)))))) :: []))
                               else buf
                             in
                             if negb replaceLast
                             then addSegment u0 buf'
                             else set_path u0 (replace_last path buf')
                                    u0.u_opaque
                        else u0
            in
            if N.eqb r (Npos (XI (XI (XI (XI (XI XH))))))
            then Cont
                   (mk QuerySt p eof [] atF brF pwF (set_query u1 (Some [])))
            else if N.eqb r (Npos (XI (XI (XO (XO (XO XH))))))
                 then Cont
                        (mk FragmentSt p eof [] atF brF pwF
                          (set_fragment u1 (Some [])))
                 else Cont (mk st p eof [] atF brF pwF u1)
          in
          if sab u then mherr c u InvalidReverseSolidus false k else k u
     else url_unit_checks u (fun inv u0 ->
            let enc =
              if inv
              then percentEncodeInvalidRune c r c.c_pathSet
              else percentEncodeRune c r (Some c.c_pathSet)
            in
            Cont (mk st p eof (app buf enc) atF brF pwF u0))
   | PathStart ->
     if (&&) (special u) (negb c.c_skipTrailSlash)
     then let k = fun u0 ->
            if (&&) (negb (N.eqb r (Npos (XI (XI (XI (XI (XO XH))))))))
                 (negb (N.eqb r (Npos (XO (XO (XI (XI (XI (XO XH)))))))))
            then go_rw PathSt u0
            else go PathSt u0
          in
          if N.eqb r (Npos (XO (XO (XI (XI (XI (XO XH)))))))
          then mherr c u InvalidReverseSolidus false k
          else k u
     else if (&&) (negb (overridden override))
               (N.eqb r (Npos (XI (XI (XI (XI (XI XH)))))))
          then go QuerySt (set_query u (Some []))
          else if (&&) (negb (overridden override))
                    (N.eqb r (Npos (XI (XI (XO (XO (XO XH)))))))
               then go FragmentSt (set_fragment u (Some []))
               else if negb eof
                    then if negb (N.eqb r (Npos (XI (XI (XI (XI (XO XH)))))))
                         then go_rw PathSt u
                         else go PathSt u
                    else if (&&) (overridden override)
                              (negb (is_some u.u_host))
                         then go st (addSegment u [])
                         else go st u
   | QuerySt ->
     if (&&) (negb (overridden override))
          (N.eqb r (Npos (XI (XI (XO (XO (XO XH)))))))
     then (match u.u_query with
           | Some _ ->
             Cont
               (mk FragmentSt p eof [] atF brF pwF
                 (set_fragment (set_query u (Some buf)) (Some [])))
           | None -> Panic)
     else if negb eof
          then url_unit_checks u (fun _ u0 ->
                 let set =
                   if isSpecialScheme c u0.u_scheme
                   then c.c_squerySet
                   else c.c_querySet
                 in
                 Cont
                 (mk st p eof (app buf (percentEncodeRune c r (Some set)))
                   atF brF pwF u0))
          else go st (set_query u (Some buf))
   | FragmentSt ->
     if negb eof
     then url_unit_checks u (fun _ u0 ->
            let set =
              if isSpecialScheme c u0.u_scheme
              then c.c_sfragSet
              else c.c_fragSet
            in
            Cont
            (mk st p eof (app buf (percentEncodeRune c r (Some set))) atF brF
              pwF u0))
     else go st (set_fragment u (Some buf))
   | Relative ->
     (match base with
      | Some b ->
        let u0 = set_scheme u b.u_scheme in
        if N.eqb r (Npos (XI (XI (XI (XI (XO XH))))))
        then go RelativeSlash u0
        else if sab u0
             then mherr c u0 InvalidReverseSolidus false (go RelativeSlash)
             else let u1 =
                    set_query
                      (set_path (copy_base_auth u0 b) b.u_path b.u_opaque)
                      b.u_query
                  in
                  if N.eqb r (Npos (XI (XI (XI (XI (XI XH))))))
                  then go QuerySt (set_query u1 (Some []))
                  else if N.eqb r (Npos (XI (XI (XO (XO (XO XH))))))
                       then go FragmentSt (set_fragment u1 (Some []))
                       else if negb eof
                            then let u2 = set_query u1 None in
                                 go_rw PathSt
                                   (set_path u2
                                     (shortenPath u2.u_scheme u2.u_path)
                                     u2.u_opaque)
                            else go st u1
      | None -> Panic)
   | RelativeSlash ->
     if (&&) (special u)
          ((||) (N.eqb r (Npos (XI (XI (XI (XI (XO XH)))))))
            (N.eqb r (Npos (XO (XO (XI (XI (XI (XO XH)))))))))
     then let k = go SpecialAuthorityIgnoreSlashes in
          if N.eqb r (Npos (XO (XO (XI (XI (XI (XO XH)))))))
          then mherr c u InvalidReverseSolidus false k
          else k u
     else if N.eqb r (Npos (XI (XI (XI (XI (XO XH))))))
          then go Authority u
          else (match base with
                | Some b -> go_rw PathSt (copy_base_auth u b)
                | None -> Panic)
   | _ ->
     if (&&) (overridden override) (str_eqb u.u_scheme s_file)
     then go_rw FileHost u
     else if (&&) (N.eqb r (Npos (XO (XI (XO (XI (XI XH))))))) (negb brF)
          then let k = fun u0 ->
                 match override with
                 | Some s ->
                   (match s with
                    | HostnameSt -> RetUrl u0
                    | _ ->
                      (match parseHost idna_raw c u0 buf (negb (special u0)) with
                       | Ok (u1, host0) ->
                         Cont
                           (mk PortSt p eof [] atF brF pwF
                             (set_host u1 (Some host0)))
                       | Er (u1, e) -> RetErr (u1, e)))
                 | None ->
                   (match parseHost idna_raw c u0 buf (negb (special u0)) with
                    | Ok (u1, host0) ->
                      Cont
                        (mk PortSt p eof [] atF brF pwF
                          (set_host u1 (Some host0)))
                    | Er (u1, e) -> RetErr (u1, e))
               in
               if is_nil buf then mherr c u HostMissing true k else k u
          else if (||) eof
                    ((||)
                      ((||)
                        ((||) (N.eqb r (Npos (XI (XI (XI (XI (XO XH)))))))
                          (N.eqb r (Npos (XI (XI (XI (XI (XI XH))))))))
                        (N.eqb r (Npos (XI (XI (XO (XO (XO XH)))))))) 
                      (sab u))
               then if (&&) (special u) (is_nil buf)
                    then mherr c u HostMissing true (go_rw st)
                    else if (&&) ((&&) (overridden override) (is_nil buf))
                              ((||)
                                ((||) (negb (is_nil u.u_username))
                                  (negb (is_nil u.u_password)))
                                (is_some u.u_port))
                         then RetUrl u
                         else (match parseHost idna_raw c u buf
                                       (negb (special u)) with
                               | Ok (u0, host0) ->
                                 let u1 = set_host u0 (Some host0) in
                                 if overridden override
                                 then RetUrl u1
                                 else Cont
                                        (mk PathStart (Z.sub p (Zpos XH))
                                          false [] atF brF pwF u1)
                               | Er (u0, e) -> RetErr (u0, e))
               else let brF' =
                      if N.eqb r (Npos (XI (XI (XO (XI (XI (XO XH)))))))
                      then true
                      else if N.eqb r (Npos (XI (XO (XI (XI (XI (XO XH)))))))
                           then false
                           else brF
                    in
                    let bytes =
                      match rune_at inp p with
                      | Some r0 ->
                        (match r0 with
                         | Good _ -> utf8_enc r
                         | Bad b ->
                           if c.c_acceptInvalid then b :: [] else utf8_enc r)
                      | None -> utf8_enc r
                    in
                    Cont (mk st p eof (app buf bytes) atF brF' pwF u))

type result =
| RUrl of url
| RErr of url * verr
| RNilNil of url
| RPanic
| ROutOfFuel

(** val run :
    (str -> str * bool) -> cfg -> rune list -> url option -> state option ->
    nat -> mstate -> result **)

let rec run idna_raw c inp base override fuel m =
  match fuel with
  | O -> ROutOfFuel
  | S f ->
    (match step idna_raw c inp base override m with
     | Cont m' ->
       if m'.m_eof
       then RUrl m'.m_url
       else run idna_raw c inp base override f m'
     | RetUrl u -> RUrl u
     | RetErr (u, e) -> RErr (u, e)
     | RetNilNil u -> RNilNil u
     | Panic -> RPanic)

(** val in_c0_or_space : n -> bool **)

let in_c0_or_space b =
  negb (runeNotInSet pes_C0OrSpace b)

(** val trim_left_set : str -> str **)

let rec trim_left_set s = match s with
| [] -> []
| b :: s' -> if in_c0_or_space b then trim_left_set s' else s

(** val trim_c0space : str -> str * bool **)

let trim_c0space s =
  let t = rev (trim_left_set (rev (trim_left_set s))) in
  (t, (negb (Z.eqb (len t) (len s))))

(** val remove_tabnl : str -> str * bool **)

let remove_tabnl s =
  let t = filter (fun b -> negb (isTabOrNewline b)) s in
  (t, (negb (Z.eqb (len t) (len s))))

(** val fuel_of : nat -> nat **)

let fuel_of n0 =
  mul (S (S (S (S (S (S (S (S (S (S (S (S (S (S (S (S (S (S (S (S (S (S (S (S
    O)))))))))))))))))))))))) (add n0 (S (S (S O))))

(** val clone : url -> url **)

let clone u =
  set_verrs u []

(** val basicParser :
    (str -> str * bool) -> cfg -> str -> url option -> url option -> state
    option -> result **)

let basicParser idna_raw c urlOrRef baseUrl u0 override =
  let start = fun u ->
    let (i, changed) = remove_tabnl u.u_input in
    let k = fun u1 ->
      let inp = decode u1.u_input in
      let st = match override with
               | Some s -> s
               | None -> SchemeStart in
      run idna_raw c inp (option_map clone baseUrl) override
        (fuel_of (length inp)) (mk st (Zneg XH) false [] false false false u1)
    in
    if changed
    then let (u', o) = handleError c u InvalidURLUnit false in
         (match o with
          | Some e -> RErr (u', e)
          | None -> k (set_input u' i))
    else k u
  in
  (match u0 with
   | Some u -> start (set_input u urlOrRef)
   | None ->
     let u = empty_url urlOrRef in
     let (i, changed) = trim_c0space urlOrRef in
     if changed
     then let (u', o) = handleError c u InvalidURLUnit false in
          (match o with
           | Some e -> RErr (u', e)
           | None -> start (set_input u' i))
     else start u)

type pres =
| PUrl of url
| PErr of verr
| PNilNil
| PPanic
| PFuel

(** val to_pres : result -> pres **)

let to_pres = function
| RUrl u -> PUrl u
| RErr (_, e) -> PErr e
| RNilNil _ -> PNilNil
| RPanic -> PPanic
| ROutOfFuel -> PFuel

(** val parse : (str -> str * bool) -> cfg -> str -> pres **)

let parse idna_raw c rawUrl =
  to_pres (basicParser idna_raw c rawUrl None None None)

(** val urlParse : (str -> str * bool) -> cfg -> url -> str -> pres **)

let urlParse idna_raw c b ref =
  to_pres (basicParser idna_raw c ref (Some b) None None)

(** val parseRef : (str -> str * bool) -> cfg -> str -> str -> pres **)

let parseRef idna_raw c rawUrl ref =
  match rawUrl with
  | [] -> parse idna_raw c ref
  | _ :: _ ->
    (match parse idna_raw c rawUrl with
     | PUrl b -> urlParse idna_raw c b ref
     | x -> x)

type pair = str * str

(** val sp_init : cfg -> str -> pair list **)

let sp_init c query0 =
  flat_map (fun q ->
    match q with
    | [] -> []
    | _ :: _ ->
      let (k, v) = cut (Npos (XI (XO (XI (XI (XI XH)))))) q in
      ((decodePercentEncoded c (plus_to_space k)),
      (match v with
       | Some v0 -> decodePercentEncoded c (plus_to_space v0)
       | None -> [])) :: []) (split (Npos (XO (XI (XI (XO (XO XH)))))) query0)

(** val queryEscape : cfg -> str -> str **)

let queryEscape c s =
  flat_map (fun b ->
    if N.eqb b (Npos (XO (XO (XO (XO (XO XH))))))
    then (Npos (XI (XI (XO (XI (XO XH)))))) :: []
    else if (||)
              ((||) (N.eqb b (Npos (XO (XI (XI (XO (XO XH)))))))
                (N.eqb b (Npos (XI (XO (XI (XI (XI XH))))))))
              (N.eqb b (Npos (XI (XI (XO (XI (XO XH)))))))
         then percentEncodeRune c b None
         else percentEncodeRune c b (Some c.c_querySet)) (runes s)

(** val sp_string : cfg -> pair list -> str **)

let sp_string c l =
  join ((Npos (XO (XI (XI (XO (XO XH)))))) :: [])
    (map (fun nv ->
      let (n0, v) = nv in
      app (queryEscape c n0)
        (app
          (if (||) (negb c.c_skipEq) (negb (is_nil v))
           then (Npos (XI (XO (XI (XI (XI XH)))))) :: []
           else []) (if negb (is_nil v) then queryEscape c v else []))) l)

(** val sp_update : cfg -> url -> pair list -> url **)

let sp_update c u l =
  let q = sp_string c l in
  let u0 = set_sp u (Some l) in
  if (||) ((&&) (is_nil q) (is_some u0.u_query)) (negb (is_nil q))
  then set_query u0 (Some q)
  else u0

(** val ensure_sp : cfg -> url -> url * pair list **)

let ensure_sp c u =
  match u.u_sp with
  | Some l -> (u, l)
  | None ->
    let l = match u.u_query with
            | Some q -> sp_init c q
            | None -> [] in
    ((set_sp u (Some l)), l)

(** val sp_append : pair list -> str -> str -> pair list **)

let sp_append l n0 v =
  app l ((n0, v) :: [])

(** val sp_delete : pair list -> str -> pair list **)

let sp_delete l n0 =
  filter (fun nv -> negb (str_eqb (fst nv) n0)) l

(** val sp_get : pair list -> str -> str **)

let sp_get l n0 =
  match find (fun nv -> str_eqb (fst nv) n0) l with
  | Some nv -> snd nv
  | None -> []

(** val sp_getall : pair list -> str -> str list **)

let sp_getall l n0 =
  map snd (filter (fun nv -> str_eqb (fst nv) n0) l)

(** val sp_has : pair list -> str -> bool **)

let sp_has l n0 =
  existsb (fun nv -> str_eqb (fst nv) n0) l

(** val sp_set_aux : pair list -> str -> str -> bool -> pair list * bool **)

let rec sp_set_aux l n0 v isSet =
  match l with
  | [] -> ([], isSet)
  | p :: l' ->
    let (n', v') = p in
    if str_eqb n' n0
    then if isSet
         then sp_set_aux l' n0 v true
         else let (r, s) = sp_set_aux l' n0 v true in (((n', v) :: r), s)
    else let (r, s) = sp_set_aux l' n0 v isSet in (((n', v') :: r), s)

(** val sp_set : pair list -> str -> str -> pair list **)

let sp_set l n0 v =
  let (r, isSet) = sp_set_aux l n0 v false in
  if isSet then r else app r ((n0, v) :: [])

(** val sp_sort : pair list -> pair list **)

let sp_sort l =
  sort_stable (fun a b -> str_ltb (fst a) (fst b)) l

(** val sp_sort_abs : pair list -> pair list **)

let sp_sort_abs l =
  sort_stable (fun a b ->
    str_ltb (app (fst a) (snd a)) (app (fst b) (snd b))) l

(** val after : result -> url option **)

let after = function
| RUrl u -> Some u
| RErr (u, _) -> Some u
| RNilNil u -> Some u
| _ -> None

(** val no_host_or_file : url -> bool **)

let no_host_or_file u =
  (||) (match u.u_host with
        | Some h -> is_nil h
        | None -> true) (str_eqb u.u_scheme s_file)

(** val setProtocol :
    (str -> str * bool) -> cfg -> url -> str -> url option **)

let setProtocol idna_raw c u s =
  let s0 =
    if has_suffix ((Npos (XO (XI (XO (XI (XI XH)))))) :: []) s
    then s
    else app s ((Npos (XO (XI (XO (XI (XI XH)))))) :: [])
  in
  after (basicParser idna_raw c s0 None (Some u) (Some SchemeStart))

(** val setUsername : cfg -> url -> str -> url option **)

let setUsername c u s =
  if no_host_or_file u
  then Some u
  else Some (set_username u (percentEncodeString c s pes_UserInfo))

(** val setPassword : cfg -> url -> str -> url option **)

let setPassword c u s =
  if no_host_or_file u
  then Some u
  else Some (set_password u (percentEncodeString c s pes_UserInfo))

(** val setHost : (str -> str * bool) -> cfg -> url -> str -> url option **)

let setHost idna_raw c u s =
  if u.u_opaque
  then Some u
  else after (basicParser idna_raw c s None (Some u) (Some HostSt))

(** val setHostname :
    (str -> str * bool) -> cfg -> url -> str -> url option **)

let setHostname idna_raw c u s =
  if u.u_opaque
  then Some u
  else after (basicParser idna_raw c s None (Some u) (Some HostnameSt))

(** val setPort : (str -> str * bool) -> cfg -> url -> str -> url option **)

let setPort idna_raw c u s =
  if no_host_or_file u
  then Some u
  else (match s with
        | [] -> Some (set_port u None N0)
        | _ :: _ ->
          after (basicParser idna_raw c s None (Some u) (Some PortSt)))

(** val setPathname :
    (str -> str * bool) -> cfg -> url -> str -> url option **)

let setPathname idna_raw c u s =
  if u.u_opaque
  then Some u
  else after
         (basicParser idna_raw c s None (Some (set_path u [] false)) (Some
           PathStart))

(** val strip_opaque : url -> url option **)

let strip_opaque u =
  if u.u_opaque
  then (match u.u_path with
        | [] -> None
        | s :: rest ->
          Some
            (set_path u
              ((trim_right ((Npos (XO (XO (XO (XO (XO XH)))))) :: []) s) :: rest)
              true))
  else Some u

(** val setSearch : (str -> str * bool) -> cfg -> url -> str -> url option **)

let setSearch idna_raw c u s = match s with
| [] ->
  let u0 = set_query u None in
  let u1 = match u0.u_sp with
           | Some _ -> set_sp u0 (Some [])
           | None -> u0 in
  if negb (is_some u1.u_fragment) then strip_opaque u1 else Some u1
| _ :: _ ->
  let s0 = trim_prefix1 (Npos (XI (XI (XI (XI (XI XH)))))) s in
  let u0 = match u.u_query with
           | Some _ -> u
           | None -> set_query u (Some []) in
  (match after (basicParser idna_raw c s0 None (Some u0) (Some QuerySt)) with
   | Some u1 ->
     (match u1.u_query with
      | Some q -> Some (set_sp u1 (Some (sp_init c q)))
      | None -> None)
   | None -> None)

(** val setHash : (str -> str * bool) -> cfg -> url -> str -> url option **)

let setHash idna_raw c u s = match s with
| [] ->
  let u0 = set_fragment u None in
  if negb (is_some u0.u_query) then strip_opaque u0 else Some u0
| _ :: _ ->
  let s0 = trim_prefix1 (Npos (XI (XI (XO (XO (XO XH)))))) s in
  after
    (basicParser idna_raw c s0 None (Some (set_fragment u (Some []))) (Some
      FragmentSt))

(** val clone0 : url -> url **)

let clone0 u =
  set_verrs u []

(** val c_decode : str -> str **)

let rec c_decode = function
| [] -> []
| b :: s' ->
  if N.eqb b (Npos (XI (XO (XI (XO (XO XH))))))
  then (match s' with
        | [] -> b :: (c_decode s')
        | h :: l0 ->
          (match l0 with
           | [] -> b :: (c_decode s')
           | l :: s'' ->
             if (&&) (isHexDigit h) (isHexDigit l)
             then (N.add (N.mul (hex_val h) (Npos (XO (XO (XO (XO XH))))))
                    (hex_val l)) :: (c_decode s'')
             else b :: (c_decode s')))
  else b :: (c_decode s')

(** val repeatedDecode_fuel : nat -> str -> str option **)

let rec repeatedDecode_fuel fuel s =
  match fuel with
  | O -> None
  | S f ->
    let r = c_decode s in
    if str_eqb s r then Some s else repeatedDecode_fuel f r

(** val repeatedDecode : str -> str option **)

let repeatedDecode s =
  repeatedDecode_fuel (S (length s)) s

(** val c_percentEncode : str -> peset -> str **)

let c_percentEncode s tr =
  flat_map (fun b ->
    percentEncodeByte b
      (pes_set tr ((Npos (XI (XO (XI (XO (XO XH)))))) :: []))) s

(** val decodeEncode : str -> peset -> str option **)

let decodeEncode s tr =
  match repeatedDecode s with
  | Some d -> Some (c_percentEncode d tr)
  | None -> None

(** val bind : 'a1 option -> ('a1 -> 'a2 option) -> 'a2 option **)

let bind o f =
  match o with
  | Some a -> f a
  | None -> None

(** val canonicalize : (str -> str * bool) -> profile -> url -> url option **)

let canonicalize idna_raw p =
  let c = p.p_cfg in
  (fun u ->
  bind
    (if p.p_repeated
     then bind
            (if negb (is_nil (hostname u))
             then bind (decodeEncode (hostname u) pes_Host)
                    (setHostname idna_raw c u)
             else Some u) (fun u0 ->
            bind (pathname u0) (fun pn ->
              bind
                (if negb (is_nil pn)
                 then bind (decodeEncode pn pes_LaxPath)
                        (setPathname idna_raw c u0)
                 else Some u0) (fun u1 ->
                bind
                  (if negb (is_nil (search u1))
                   then let (u2, l) = ensure_sp c u1 in
                        let l' =
                          map (fun nv ->
                            ((decodeEncode (fst nv) pes_RepeatedQuery),
                            (decodeEncode (snd nv) pes_RepeatedQuery))) l
                        in
                        if forallb (fun nv ->
                             (&&) (is_some (fst nv)) (is_some (snd nv))) l'
                        then Some
                               (sp_update c u2
                                 (map (fun nv ->
                                   ((match fst nv with
                                     | Some x -> x
                                     | None -> []),
                                   (match snd nv with
                                    | Some x -> x
                                    | None -> []))) l'))
                        else None
                   else Some u1) (fun u2 ->
                  if negb (is_nil (hash u2))
                  then bind
                         (decodeEncode
                           (trim_prefix1 (Npos (XI (XI (XO (XO (XO XH))))))
                             (hash u2)) pes_Host) (setHash idna_raw c u2)
                  else Some u2))))
     else Some u) (fun u0 ->
    bind (if p.p_removePort then setPort idna_raw c u0 [] else Some u0)
      (fun u1 ->
      bind
        (if p.p_removeUserInfo
         then bind (setUsername c u1 []) (fun u2 -> setPassword c u2 [])
         else Some u1) (fun u2 ->
        bind
          (if p.p_removeFragment then setHash idna_raw c u2 [] else Some u2)
          (fun u3 ->
          match p.p_sortQuery with
          | NoSort -> Some u3
          | SortKeys ->
            let (u4, l) = ensure_sp c u3 in Some (sp_update c u4 (sp_sort l))
          | SortParameter ->
            let (u4, l) = ensure_sp c u3 in
            Some (sp_update c u4 (sp_sort_abs l)))))))

type cres =
| CUrl of url
| CErr of verr
| CPanic

(** val canon_of : (str -> str * bool) -> profile -> pres -> cres **)

let canon_of idna_raw p = function
| PUrl u ->
  (match canonicalize idna_raw p u with
   | Some u' -> CUrl u'
   | None -> CPanic)
| PErr e -> CErr e
| _ -> CPanic

(** val s_colon_slash_slash : str **)

let s_colon_slash_slash =
  (Npos (XO (XI (XO (XI (XI XH)))))) :: ((Npos (XI (XI (XI (XI (XO
    XH)))))) :: ((Npos (XI (XI (XI (XI (XO XH)))))) :: []))

(** val parse_retry : (str -> str * bool) -> profile -> str -> pres **)

let parse_retry idna_raw p =
  let c = p.p_cfg in
  (fun rawUrl ->
  match parse idna_raw c rawUrl with
  | PErr e ->
    (match e.e_type with
     | MissingSchemeNonRelativeURL ->
       if negb (is_nil p.p_defaultScheme)
       then parse idna_raw c
              (app p.p_defaultScheme (app s_colon_slash_slash rawUrl))
       else PErr e
     | _ -> PErr e)
  | x -> x)

(** val profileParse : (str -> str * bool) -> profile -> str -> cres **)

let profileParse idna_raw p rawUrl =
  canon_of idna_raw p (parse_retry idna_raw p rawUrl)

(** val profileParseRef :
    (str -> str * bool) -> profile -> str -> str -> cres **)

let profileParseRef idna_raw p =
  let c = p.p_cfg in
  (fun rawUrl ref ->
  match parse_retry idna_raw p rawUrl with
  | PUrl b -> canon_of idna_raw p (urlParse idna_raw c b ref)
  | PErr e -> CErr e
  | _ -> CPanic)

(** val b2s : bool -> str **)

let b2s = function
| true -> (Npos (XI (XO (XO (XO (XI XH)))))) :: []
| false -> (Npos (XO (XO (XO (XO (XI XH)))))) :: []

(** val opt2s : str option -> str **)

let opt2s = function
| Some s -> s
| None -> (Npos (XI (XO (XO (XO (XO XH)))))) :: []

(** val verr_obs : verr -> str **)

let verr_obs e =
  app (itoa (etype_index e.e_type))
    (app ((Npos (XO (XI (XO (XI (XI XH)))))) :: []) (b2s e.e_failure))

(** val obs_url : cfg -> url -> str list **)

let obs_url c u =
  (opt2s (href u false)) :: ((opt2s (href u true)) :: ((protocol u) :: (
    (username u) :: ((password u) :: ((host u) :: ((hostname u) :: ((port u) :: (
    (opt2s (pathname u)) :: ((search u) :: ((hash u) :: (u.u_scheme :: (
    (query u) :: ((fragment u) :: ((itoa (decodedPort c u)) :: ((b2s
                                                                  (isIPv4 c u)) :: (
    (b2s (isIPv6 u)) :: ((b2s u.u_opaque) :: ((b2s (isSpecialScheme0 c u)) :: (
    (join ((Npos (XO (XO (XI (XI (XO XH)))))) :: []) (map verr_obs u.u_verrs)) :: [])))))))))))))))))))

(** val obs_pairs : (str * str) list -> str list **)

let obs_pairs l =
  flat_map (fun nv -> (fst nv) :: ((snd nv) :: [])) l

type obs =
| OUrl of str list
| OErr of str * str
| ONilNil
| OPanic
| OFuel

(** val obs_pres : cfg -> pres -> obs **)

let obs_pres c = function
| PUrl u -> OUrl (obs_url c u)
| PErr e -> OErr ((verr_obs e), e.e_url)
| PNilNil -> ONilNil
| PPanic -> OPanic
| PFuel -> OFuel

(** val obs_cres : cfg -> cres -> obs **)

let obs_cres c = function
| CUrl u -> OUrl (obs_url c u)
| CErr e -> OErr ((verr_obs e), e.e_url)
| CPanic -> OPanic

type op =
| OSet of bool * n * str
| OResolve of bool * str
| OResolveInto of str
| OCloneInto of bool
| OSpAppend of bool * str * str
| OSpDelete of bool * str
| OSpSet of bool * str * str
| OSpSort of bool
| OSpSortAbs of bool
| OSpQuery of bool * str
| OSpTouch of bool

(** val setter :
    (str -> str * bool) -> cfg -> n -> url -> str -> url option **)

let setter idna_raw c which u v =
  match which with
  | N0 -> setProtocol idna_raw c u v
  | Npos p ->
    (match p with
     | XI p0 ->
       (match p0 with
        | XI p1 ->
          (match p1 with
           | XH -> setSearch idna_raw c u v
           | _ -> setHash idna_raw c u v)
        | XO p1 ->
          (match p1 with
           | XH -> setPort idna_raw c u v
           | _ -> setHash idna_raw c u v)
        | XH -> setHost idna_raw c u v)
     | XO p0 ->
       (match p0 with
        | XI p1 ->
          (match p1 with
           | XH -> setPathname idna_raw c u v
           | _ -> setHash idna_raw c u v)
        | XO p1 ->
          (match p1 with
           | XH -> setHostname idna_raw c u v
           | _ -> setHash idna_raw c u v)
        | XH -> setPassword c u v)
     | XH -> setUsername c u v)

type hstate = url option * url option

(** val get : hstate -> bool -> url option **)

let get s = function
| true -> snd s
| false -> fst s

(** val put : hstate -> bool -> url option -> hstate **)

let put s slot u =
  if slot then ((fst s), u) else (u, (snd s))

(** val with_sp :
    cfg -> hstate -> bool -> ((str * str) list -> (str * str) list) -> hstate **)

let with_sp c s slot f =
  match get s slot with
  | Some u ->
    let (u0, l) = ensure_sp c u in put s slot (Some (sp_update c u0 (f l)))
  | None -> s

(** val hstep :
    (str -> str * bool) -> cfg -> hstate -> op -> hstate * str list **)

let hstep idna_raw c s = function
| OSet (slot, w, v) ->
  (match get s slot with
   | Some u ->
     (match setter idna_raw c w u v with
      | Some u' -> ((put s slot (Some u')), [])
      | None ->
        ((put s slot None), (((Npos (XI (XO (XO (XO (XO
          XH)))))) :: []) :: [])))
   | None -> (s, []))
| OResolve (slot, ref) ->
  (match get s slot with
   | Some u ->
     (match urlParse idna_raw c u ref with
      | PUrl u' ->
        ((put s slot (Some u')), (((Npos (XI (XO (XI (XO (XI (XI
          XH))))))) :: []) :: []))
      | PErr e -> (s, ((verr_obs e) :: []))
      | _ ->
        ((put s slot None), (((Npos (XI (XO (XO (XO (XO
          XH)))))) :: []) :: [])))
   | None -> (s, []))
| OResolveInto ref ->
  (match fst s with
   | Some u ->
     (match urlParse idna_raw c u ref with
      | PUrl u' ->
        ((put s true (Some u')), (((Npos (XI (XO (XI (XO (XI (XI
          XH))))))) :: []) :: []))
      | PErr e -> (s, ((verr_obs e) :: []))
      | _ ->
        ((put s true None), (((Npos (XI (XO (XO (XO (XO
          XH)))))) :: []) :: [])))
   | None -> (s, []))
| OCloneInto from ->
  (match get s from with
   | Some u -> ((put s (negb from) (Some (clone0 u))), [])
   | None -> (s, []))
| OSpAppend (slot, n0, v) ->
  ((with_sp c s slot (fun l -> sp_append l n0 v)), [])
| OSpDelete (slot, n0) -> ((with_sp c s slot (fun l -> sp_delete l n0)), [])
| OSpSet (slot, n0, v) -> ((with_sp c s slot (fun l -> sp_set l n0 v)), [])
| OSpSort slot -> ((with_sp c s slot sp_sort), [])
| OSpSortAbs slot -> ((with_sp c s slot sp_sort_abs), [])
| OSpQuery (slot, n0) ->
  (match get s slot with
   | Some u ->
     let (u0, l) = ensure_sp c u in
     ((put s slot (Some u0)),
     (app
       ((sp_get l n0) :: ((b2s (sp_has l n0)) :: ((sp_string c l) :: (
       (itoa (N.of_nat (length (sp_getall l n0)))) :: []))))
       (app (sp_getall l n0) (obs_pairs l))))
   | None -> (s, []))
| OSpTouch slot ->
  (match get s slot with
   | Some u -> ((put s slot (Some (fst (ensure_sp c u)))), [])
   | None -> (s, []))

(** val obs_slot : cfg -> url option -> str list **)

let obs_slot c = function
| Some u -> obs_url c u
| None -> ((Npos (XI (XO (XI (XI (XO XH)))))) :: []) :: []

(** val hrun :
    (str -> str * bool) -> cfg -> hstate -> op list -> ((str list * str
    list) * str list) list **)

let rec hrun idna_raw c s = function
| [] -> []
| o :: rest ->
  let (s', extra) = hstep idna_raw c s o in
  ((extra, (obs_slot c (fst s'))),
  (obs_slot c (snd s'))) :: (hrun idna_raw c s' rest)

(** val history :
    (str -> str * bool) -> cfg -> str option -> str -> op list -> obs * ((str
    list * str list) * str list) list **)

let history idna_raw c base input ops =
  let r =
    match base with
    | Some b -> parseRef idna_raw c b input
    | None -> parse idna_raw c input
  in
  ((obs_pres c r),
  (match r with
   | PUrl u -> hrun idna_raw c ((Some u), None) ops
   | _ -> []))
