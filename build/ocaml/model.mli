
val negb : bool -> bool

type nat =
| O
| S of nat

val option_map : ('a1 -> 'a2) -> 'a1 option -> 'a2 option

type ('a, 'b) sum =
| Inl of 'a
| Inr of 'b

val fst : ('a1 * 'a2) -> 'a1

val snd : ('a1 * 'a2) -> 'a2

val length : 'a1 list -> nat

val app : 'a1 list -> 'a1 list -> 'a1 list

type comparison =
| Eq
| Lt
| Gt

val compOpp : comparison -> comparison

val add : nat -> nat -> nat

val mul : nat -> nat -> nat

val sub : nat -> nat -> nat

module Nat :
 sig
  val eqb : nat -> nat -> bool

  val leb : nat -> nat -> bool

  val ltb : nat -> nat -> bool
 end

val tl : 'a1 list -> 'a1 list

val nth : nat -> 'a1 list -> 'a1 -> 'a1

val removelast : 'a1 list -> 'a1 list

val rev : 'a1 list -> 'a1 list

val map : ('a1 -> 'a2) -> 'a1 list -> 'a2 list

val flat_map : ('a1 -> 'a2 list) -> 'a1 list -> 'a2 list

val fold_left : ('a1 -> 'a2 -> 'a1) -> 'a2 list -> 'a1 -> 'a1

val fold_right : ('a2 -> 'a1 -> 'a1) -> 'a1 -> 'a2 list -> 'a1

val existsb : ('a1 -> bool) -> 'a1 list -> bool

val forallb : ('a1 -> bool) -> 'a1 list -> bool

val filter : ('a1 -> bool) -> 'a1 list -> 'a1 list

val find : ('a1 -> bool) -> 'a1 list -> 'a1 option

val firstn : nat -> 'a1 list -> 'a1 list

val skipn : nat -> 'a1 list -> 'a1 list

type positive =
| XI of positive
| XO of positive
| XH

type n =
| N0
| Npos of positive

type z =
| Z0
| Zpos of positive
| Zneg of positive

module Pos :
 sig
  type mask =
  | IsNul
  | IsPos of positive
  | IsNeg
 end

module Coq_Pos :
 sig
  val succ : positive -> positive

  val add : positive -> positive -> positive

  val add_carry : positive -> positive -> positive

  val pred_double : positive -> positive

  type mask = Pos.mask =
  | IsNul
  | IsPos of positive
  | IsNeg

  val succ_double_mask : mask -> mask

  val double_mask : mask -> mask

  val double_pred_mask : positive -> mask

  val sub_mask : positive -> positive -> mask

  val sub_mask_carry : positive -> positive -> mask

  val mul : positive -> positive -> positive

  val iter : ('a1 -> 'a1) -> 'a1 -> positive -> 'a1

  val pow : positive -> positive -> positive

  val size_nat : positive -> nat

  val compare_cont : comparison -> positive -> positive -> comparison

  val compare : positive -> positive -> comparison

  val eqb : positive -> positive -> bool

  val iter_op : ('a1 -> 'a1 -> 'a1) -> positive -> 'a1 -> 'a1

  val to_nat : positive -> nat

  val of_succ_nat : nat -> positive
 end

module N :
 sig
  val succ_double : n -> n

  val double : n -> n

  val add : n -> n -> n

  val sub : n -> n -> n

  val mul : n -> n -> n

  val compare : n -> n -> comparison

  val eqb : n -> n -> bool

  val leb : n -> n -> bool

  val ltb : n -> n -> bool

  val pow : n -> n -> n

  val size_nat : n -> nat

  val pos_div_eucl : positive -> n -> n * n

  val div_eucl : n -> n -> n * n

  val div : n -> n -> n

  val modulo : n -> n -> n

  val of_nat : nat -> n
 end

module Z :
 sig
  val double : z -> z

  val succ_double : z -> z

  val pred_double : z -> z

  val pos_sub : positive -> positive -> z

  val add : z -> z -> z

  val opp : z -> z

  val sub : z -> z -> z

  val compare : z -> z -> comparison

  val leb : z -> z -> bool

  val ltb : z -> z -> bool

  val eqb : z -> z -> bool

  val to_nat : z -> nat

  val of_nat : nat -> z
 end

type str = n list

val list_eqb : ('a1 -> 'a1 -> bool) -> 'a1 list -> 'a1 list -> bool

val str_eqb : str -> str -> bool

val is_nil : 'a1 list -> bool

val is_some : 'a1 option -> bool

val mem : n -> n list -> bool

val last_opt : 'a1 list -> 'a1 option

val drop_last : 'a1 list -> 'a1 list

val replace_last : 'a1 list -> 'a1 -> 'a1 list

val nth_opt : 'a1 list -> nat -> 'a1 option

val len : 'a1 list -> z

val has_prefix : str -> str -> bool

val has_suffix : str -> str -> bool

val all_in : (n -> bool) -> str -> bool

val is_digit : n -> bool

val is_upper : n -> bool

val ascii_lower : n -> n

val str_lower : str -> str

val hex_val : n -> n

val hex_upper : n -> n

val hex_lower : n -> n

val pct_byte : n -> str

val s_file : str

val s_localhost : str

val rune_error : n

val is_surrogate : n -> bool

val utf8_enc : n -> str

val is_cont : n -> bool

val in_rng : n -> n -> n -> bool

type rune =
| Good of n
| Bad of n

val rv : rune -> n

val dec1 : n -> str -> rune * str

val decode_fuel : nat -> str -> rune list

val decode : str -> rune list

val runes : str -> n list

val encode_runes : n list -> str

val valid_utf8 : str -> bool

val split_aux : n -> str -> str -> str list

val split : n -> str -> str list

val cut_aux : n -> str -> str -> str * str option

val cut : n -> str -> str * str option

val join : str -> str list -> str

val trim_left : n list -> str -> str

val trim_right : n list -> str -> str

val trim_set : n list -> str -> str

val trim_prefix1 : n -> str -> str

val plus_to_space : str -> str

val rune_lower : n -> n

val digits_val : n -> str -> n

val fmt_fuel : n -> (n -> n) -> nat -> n -> str

val itoa : n -> str

val fmt_hex : n -> str

val insert_st : ('a1 -> 'a1 -> bool) -> 'a1 -> 'a1 list -> 'a1 list

val sort_stable : ('a1 -> 'a1 -> bool) -> 'a1 list -> 'a1 list

val str_ltb : str -> str -> bool

type peset = { ab : n; bits : n list }

type hostfun =
| HF_none
| HF_gsb
| HF_sem
| HF_fun of (str -> str)

type cfg = { c_report : bool; c_fail : bool; c_lax : bool; c_collapse : 
             bool; c_acceptInvalid : bool; c_pre : hostfun; c_post : 
             hostfun; c_singlePct : bool; c_allowPathNonBase : bool;
             c_skipDrive : bool; c_special : (str * str) list;
             c_skipTrailSlash : bool; c_latin1 : bool; c_pathSet : peset;
             c_squerySet : peset; c_querySet : peset; c_sfragSet : peset;
             c_fragSet : peset; c_skipEq : bool }

type qsort =
| NoSort
| SortKeys
| SortParameter

type profile = { p_cfg : cfg; p_removeUserInfo : bool; p_removePort : 
                 bool; p_removeFragment : bool; p_sortQuery : qsort;
                 p_repeated : bool; p_defaultScheme : str }

val bs_ASCIITabOrNewline : n list

val bs_ASCIIAlpha : n list

val bs_ASCIIDigit : n list

val bs_ASCIIHexDigit : n list

val bs_ASCIIAlphanumeric : n list

val bs_ForbiddenHostCodePoint : n list

val bs_ForbiddenDomainCodePoint : n list

val bs_someURLCodePoints : n list

val pes_C0 : peset

val pes_C0OrSpace : peset

val pes_Fragment : peset

val pes_Query : peset

val pes_SpecialQuery : peset

val pes_Path : peset

val pes_UserInfo : peset

val pes_Host : peset

val pes_LaxPath : peset

val pes_LaxQuery : peset

val pes_RepeatedQuery : peset

val default_cfg : cfg

val prof_none : profile

val prof_WhatWg : profile

val prof_WhatWgSortQuery : profile

val prof_GoogleSafeBrowsing : profile

val prof_Semantic : profile

val bs_test : n list -> n -> bool

val isTabOrNewline : n -> bool

val isAlpha : n -> bool

val isDigit : n -> bool

val isHexDigit : n -> bool

val isAlnum : n -> bool

val isForbiddenHost : n -> bool

val isForbiddenDomain : n -> bool

val pes_set : peset -> n list -> peset

val pes_clear : peset -> n list -> peset

val runeShouldBeEncoded : peset -> n -> bool

val byteShouldBeEncoded : peset -> n -> bool

val runeNotInSet : peset -> n -> bool

val is_nonchar : n -> bool

val isURLCodePoint : n -> bool

val latin1_enc : n -> n * bool

val percentEncodeRune : cfg -> n -> peset option -> str

val percentEncodeInvalidRune : cfg -> n -> peset -> str

val pes_loop : cfg -> peset -> n list -> str

val percentEncodeString : cfg -> str -> peset -> str

val decodePercentEncoded : cfg -> str -> str

val percentEncodeByte : n -> peset -> str

val percentEncodeBytes : str -> peset -> str

type etype =
| DomainToASCII
| DomainToUnicode
| DomainInvalidCodePoint
| HostInvalidCodePoint
| IPv4EmptyPart
| IPv4TooManyParts
| IPv4NonNumericPart
| IPv4NonDecimalPart
| IPv4OutOfRangePart
| IPv6Unclosed
| IPv6InvalidCompression
| IPv6TooManyPieces
| IPv6MultipleCompression
| IPv6InvalidCodePoint
| IPv6TooFewPieces
| IPv4InIPv6TooManyPieces
| IPv4InIPv6InvalidCodePoint
| IPv4InIPv6OutOfRangePart
| IPv4InIPv6TooFewParts
| InvalidURLUnit
| SpecialSchemeMissingFollowingSolidus
| MissingSchemeNonRelativeURL
| InvalidReverseSolidus
| InvalidCredentials
| HostMissing
| PortMissing
| PortOutOfRange
| PortInvalid
| FileInvalidWindowsDriveLetter
| FileInvalidWindowsDriveLetterHost

val etype_index : etype -> n

type verr = { e_type : etype; e_failure : bool; e_url : str }

type url = { u_input : str; u_scheme : str; u_username : str;
             u_password : str; u_host : str option; u_port : str option;
             u_decodedPort : n; u_path : str list; u_opaque : bool;
             u_query : str option; u_fragment : str option;
             u_verrs : verr list; u_sp : (str * str) list option }

val empty_url : str -> url

val set_input : url -> str -> url

val set_scheme : url -> str -> url

val set_username : url -> str -> url

val set_password : url -> str -> url

val set_host : url -> str option -> url

val set_port : url -> str option -> n -> url

val set_path : url -> str list -> bool -> url

val set_query : url -> str option -> url

val set_fragment : url -> str option -> url

val set_verrs : url -> verr list -> url

val set_sp : url -> (str * str) list option -> url

val assoc : str -> (str * str) list -> str option

val getSpecialScheme : cfg -> str -> str option

val isSpecialScheme : cfg -> str -> bool

val isSpecialScheme0 : cfg -> url -> bool

val isSpecialSchemeAndBackslash : cfg -> url -> n -> bool

val cleanDefaultPort : cfg -> url -> url

val getDefaultPort : cfg -> url -> n

val handleError : cfg -> url -> etype -> bool -> url * verr option

val isWindowsDriveLetter : str -> bool

val isNormalizedWindowsDriveLetter : str -> bool

val startsWithAWindowsDriveLetter : str -> bool

val shortenPath : str -> str list -> str list

val path_string : str list -> bool -> str option

val protocol : url -> str

val username : url -> str

val password : url -> str

val hostname : url -> str

val port : url -> str

val host : url -> str

val pathname : url -> str option

val search : url -> str

val query : url -> str

val hash : url -> str

val fragment : url -> str

val decodedPort : cfg -> url -> n

val href : url -> bool -> str option

val isIPv4Address : str -> bool

val isIPv4 : cfg -> url -> bool

val isIPv6 : url -> bool

type 'a res =
| Ok of url * 'a
| Er of url * verr

val herr : cfg -> url -> etype -> bool -> (url -> 'a1 res) -> 'a1 res

type numres =
| NumOk of n * bool
| NumErr of bool

val parseIPv4Number_nonempty : str -> numres

val parseIPv4Number : cfg -> url -> str -> url * numres

val endsInANumber : cfg -> url -> str -> url * bool

val iPv4String : n -> str

val ipv4_numbers : cfg -> url -> str list -> n list -> n list res

val ipv4_range_warn : cfg -> url -> n list -> (url -> str res) -> str res

val ipv4_sum : n list -> n -> n

val parseIPv4 : cfg -> url -> str -> str res

val zeros8 : n list

val set_nth : n list -> nat -> n -> n list

val get_nth : n list -> nat -> n

val v4tail :
  n list -> nat -> n option -> nat -> n list -> ((nat * nat) * n list, etype)
  sum

val v6loop :
  n list -> nat -> nat option -> n list -> ((n * nat) * n list) option ->
  ((nat * nat option) * n list, etype) sum

val v6swap : n list -> nat -> nat -> nat -> n list

val ipv6_parse : n list -> (n list, etype) sum

val v6_find :
  n list -> nat -> nat option -> nat -> nat option -> nat -> nat option

val v6_print : n list -> nat -> nat option -> bool -> str

val iPv6String : n list -> str

val parseIPv6 : cfg -> url -> str -> str res

val invalid_pct : n list -> bool

val opaque_loop : cfg -> url -> str -> n list -> str -> str res

val parseOpaqueHost : cfg -> url -> str -> str res

val only_ascii_no_puny : n list -> z -> bool

val containsOnlyASCIIOrMiscAndNoPunycode : str -> bool

val stringToUnicode : str -> str option

val toASCII : (str -> str * bool) -> cfg -> str -> str option

val collapse_dots : str -> str

val hostfun_gsb : str -> str

val hostfun_sem : str -> str

val apply_hostfun : hostfun -> str -> str

val parseHost : (str -> str * bool) -> cfg -> url -> str -> bool -> str res

type state =
| SchemeStart
| Scheme
| NoScheme
| OpaquePath
| SpecialRelativeOrAuthority
| SpecialAuthoritySlashes
| SpecialAuthorityIgnoreSlashes
| PathOrAuthority
| Authority
| HostSt
| HostnameSt
| File
| FileHost
| FileSlash
| PortSt
| PathSt
| PathStart
| QuerySt
| FragmentSt
| Relative
| RelativeSlash

type mstate = { m_state : state; m_ptr : z; m_eof : bool; m_buf : str;
                m_at : bool; m_br : bool; m_pw : bool; m_url : url }

type outcome =
| Cont of mstate
| RetUrl of url
| RetErr of url * verr
| RetNilNil of url
| Panic

val mk : state -> z -> bool -> str -> bool -> bool -> bool -> url -> mstate

val mherr : cfg -> url -> etype -> bool -> (url -> outcome) -> outcome

val isSingleDotPathSegment : str -> bool

val isDoubleDotPathSegment : str -> bool

val overridden : state option -> bool

val n_inp : rune list -> z

val cp_at : rune list -> z -> n

val rune_at : rune list -> z -> rune option

val rest_from : rune list -> z -> n list

val remainingStartsWith : rune list -> z -> bool -> n list -> bool

val remainingFromPointer : rune list -> z -> bool -> str

val addSegment : url -> str -> url

val copy_base_auth : url -> url -> url

val cred_loop : cfg -> n list -> bool -> str -> str -> (bool * str) * str

val step :
  (str -> str * bool) -> cfg -> rune list -> url option -> state option ->
  mstate -> outcome

type result =
| RUrl of url
| RErr of url * verr
| RNilNil of url
| RPanic
| ROutOfFuel

val run :
  (str -> str * bool) -> cfg -> rune list -> url option -> state option ->
  nat -> mstate -> result

val in_c0_or_space : n -> bool

val trim_left_set : str -> str

val trim_c0space : str -> str * bool

val remove_tabnl : str -> str * bool

val fuel_of : nat -> nat

val clone : url -> url

val basicParser :
  (str -> str * bool) -> cfg -> str -> url option -> url option -> state
  option -> result

type pres =
| PUrl of url
| PErr of verr
| PNilNil
| PPanic
| PFuel

val to_pres : result -> pres

val parse : (str -> str * bool) -> cfg -> str -> pres

val urlParse : (str -> str * bool) -> cfg -> url -> str -> pres

val parseRef : (str -> str * bool) -> cfg -> str -> str -> pres

type pair = str * str

val sp_init : cfg -> str -> pair list

val queryEscape : cfg -> str -> str

val sp_string : cfg -> pair list -> str

val sp_update : cfg -> url -> pair list -> url

val ensure_sp : cfg -> url -> url * pair list

val sp_append : pair list -> str -> str -> pair list

val sp_delete : pair list -> str -> pair list

val sp_get : pair list -> str -> str

val sp_getall : pair list -> str -> str list

val sp_has : pair list -> str -> bool

val sp_set_aux : pair list -> str -> str -> bool -> pair list * bool

val sp_set : pair list -> str -> str -> pair list

val sp_sort : pair list -> pair list

val sp_sort_abs : pair list -> pair list

val after : result -> url option

val no_host_or_file : url -> bool

val setProtocol : (str -> str * bool) -> cfg -> url -> str -> url option

val setUsername : cfg -> url -> str -> url option

val setPassword : cfg -> url -> str -> url option

val setHost : (str -> str * bool) -> cfg -> url -> str -> url option

val setHostname : (str -> str * bool) -> cfg -> url -> str -> url option

val setPort : (str -> str * bool) -> cfg -> url -> str -> url option

val setPathname : (str -> str * bool) -> cfg -> url -> str -> url option

val strip_opaque : url -> url option

val setSearch : (str -> str * bool) -> cfg -> url -> str -> url option

val setHash : (str -> str * bool) -> cfg -> url -> str -> url option

val clone0 : url -> url

val c_decode : str -> str

val repeatedDecode_fuel : nat -> str -> str option

val repeatedDecode : str -> str option

val c_percentEncode : str -> peset -> str

val decodeEncode : str -> peset -> str option

val bind : 'a1 option -> ('a1 -> 'a2 option) -> 'a2 option

val canonicalize : (str -> str * bool) -> profile -> url -> url option

type cres =
| CUrl of url
| CErr of verr
| CPanic

val canon_of : (str -> str * bool) -> profile -> pres -> cres

val s_colon_slash_slash : str

val parse_retry : (str -> str * bool) -> profile -> str -> pres

val profileParse : (str -> str * bool) -> profile -> str -> cres

val profileParseRef : (str -> str * bool) -> profile -> str -> str -> cres

val b2s : bool -> str

val opt2s : str option -> str

val verr_obs : verr -> str

val obs_url : cfg -> url -> str list

val obs_pairs : (str * str) list -> str list

type obs =
| OUrl of str list
| OErr of str * str
| ONilNil
| OPanic
| OFuel

val obs_pres : cfg -> pres -> obs

val obs_cres : cfg -> cres -> obs

type op =
| OSet of bool * n * str
| OResolve of bool * str
| OResolveInto of str
| OCloneInto of bool
| OSpAppend of bool * str * str
| OSpDelete of bool * str
| OSpSet of bool * str * str
| OSpSort of bool
| OSpSortAbs of bool
| OSpQuery of bool * str
| OSpTouch of bool

val setter : (str -> str * bool) -> cfg -> n -> url -> str -> url option

type hstate = url option * url option

val get : hstate -> bool -> url option

val put : hstate -> bool -> url option -> hstate

val with_sp :
  cfg -> hstate -> bool -> ((str * str) list -> (str * str) list) -> hstate

val hstep : (str -> str * bool) -> cfg -> hstate -> op -> hstate * str list

val obs_slot : cfg -> url option -> str list

val hrun :
  (str -> str * bool) -> cfg -> hstate -> op list -> ((str list * str
  list) * str list) list

val history :
  (str -> str * bool) -> cfg -> str option -> str -> op list -> obs * ((str
  list * str list) * str list) list
