(* Line protocol around the extracted model. No logic of its own: decode a request, call the
   extracted function, print its result. The IDNA oracle is answered by the peer over the same pipe. *)
open Model

let rec pos_of_int (i : int) : positive =
  if i = 1 then XH else if i land 1 = 0 then XO (pos_of_int (i lsr 1)) else XI (pos_of_int (i lsr 1))
let n_of_int (i : int) : n = if i = 0 then N0 else Npos (pos_of_int i)
let rec int_of_pos (p : positive) : int =
  match p with XH -> 1 | XO q -> 2 * int_of_pos q | XI q -> 2 * int_of_pos q + 1
let int_of_n (x : n) : int = match x with N0 -> 0 | Npos p -> int_of_pos p
let rec nat_of_int (i : int) : nat = if i = 0 then O else S (nat_of_int (i - 1))

let hexval c = match c with
  | '0'..'9' -> Char.code c - 48 | 'a'..'f' -> Char.code c - 87 | 'A'..'F' -> Char.code c - 55
  | _ -> failwith "hex"
let str_of_hex (s : string) : n list =
  if s = "-" then [] else begin
    let r = ref [] in
    let l = String.length s / 2 in
    for i = l - 1 downto 0 do
      r := n_of_int (hexval s.[2*i] * 16 + hexval s.[2*i+1]) :: !r
    done; !r end
let hex_of_str (l : n list) : string =
  if l = [] then "-" else begin
    let b = Buffer.create 64 in
    List.iter (fun x -> Buffer.add_string b (Printf.sprintf "%02x" (int_of_n x))) l;
    Buffer.contents b end

(* the oracle: ask the peer *)
let idna (s : n list) : (n list * bool) =
  print_string "Q "; print_string (hex_of_str s); print_newline ();
  let line = input_line stdin in
  match String.split_on_char ' ' line with
  | ["A"; f; h] -> (str_of_hex h, f = "1")
  | _ -> failwith ("bad oracle answer: " ^ line)

let cfgs : (string, cfg) Hashtbl.t = Hashtbl.create 16
let profs : (string, profile) Hashtbl.t = Hashtbl.create 16
let () =
  Hashtbl.replace cfgs "default" default_cfg;
  Hashtbl.replace profs "none" prof_none;
  Hashtbl.replace profs "WhatWg" prof_WhatWg;
  Hashtbl.replace profs "WhatWgSortQuery" prof_WhatWgSortQuery;
  Hashtbl.replace profs "GoogleSafeBrowsing" prof_GoogleSafeBrowsing;
  Hashtbl.replace profs "Semantic" prof_Semantic;
  Hashtbl.iter (fun k p -> Hashtbl.replace cfgs ("prof:" ^ k) p.p_cfg) profs

let set_of (s : string) : peset =
  match String.split_on_char '/' s with
  | [a; bits] -> { ab = n_of_int (int_of_string a); bits = str_of_hex bits }
  | _ -> failwith "set"
let hostfun_of s = match s with "0" -> HF_none | "1" -> HF_gsb | "2" -> HF_sem | _ -> failwith "hostfun"
let bit s i = s.[i] = '1'

(* CFG id flags pre post nspecial k v ... path squery query sfrag frag *)
let def_cfg toks =
  match toks with
  | id :: flags :: pre :: post :: nsp :: rest ->
    let n = int_of_string nsp in
    let rec take k l acc = if k = 0 then (List.rev acc, l) else
        match l with a :: b :: l' -> take (k-1) l' ((str_of_hex a, str_of_hex b) :: acc) | _ -> failwith "special" in
    let (sp, rest) = take n rest [] in
    (match rest with
     | [p; sq; q; sf; f] ->
       Hashtbl.replace cfgs id
         { c_report = bit flags 0; c_fail = bit flags 1; c_lax = bit flags 2; c_collapse = bit flags 3;
           c_acceptInvalid = bit flags 4; c_pre = hostfun_of pre; c_post = hostfun_of post;
           c_singlePct = bit flags 5; c_allowPathNonBase = bit flags 6; c_skipDrive = bit flags 7;
           c_special = sp; c_skipTrailSlash = bit flags 8; c_latin1 = bit flags 9;
           c_pathSet = set_of p; c_squerySet = set_of sq; c_querySet = set_of q; c_sfragSet = set_of sf;
           c_fragSet = set_of f; c_skipEq = bit flags 10 }
     | _ -> failwith "cfg sets")
  | _ -> failwith "cfg"

(* PROF id cfgid flags(ruser rport rfrag repeated) sort defaultScheme *)
let def_prof toks =
  match toks with
  | [id; cid; flags; sort; ds] ->
    Hashtbl.replace profs id
      { p_cfg = Hashtbl.find cfgs cid; p_removeUserInfo = bit flags 0; p_removePort = bit flags 1;
        p_removeFragment = bit flags 2; p_sortQuery = (match sort with "0" -> NoSort | "1" -> SortKeys | _ -> SortParameter);
        p_repeated = bit flags 3; p_defaultScheme = str_of_hex ds };
    Hashtbl.replace cfgs ("prof:" ^ id) (Hashtbl.find cfgs cid)
  | _ -> failwith "prof"

let fields (l : n list list) : string = String.concat " " (List.map hex_of_str l)

let show_obs (o : obs) : string =
  match o with
  | OUrl f -> "U " ^ fields f
  | OErr (e, u) -> "E " ^ hex_of_str e ^ " " ^ hex_of_str u
  | ONilNil -> "NILNIL"
  | OPanic -> "PANIC"
  | OFuel -> "FUEL"

let slot s = s = "1"

let rec parse_ops toks acc =
  match toks with
  | [] -> List.rev acc
  | "s" :: sl :: w :: v :: r -> parse_ops r (OSet (slot sl, n_of_int (int_of_string w), str_of_hex v) :: acc)
  | "r" :: sl :: v :: r -> parse_ops r (OResolve (slot sl, str_of_hex v) :: acc)
  | "R" :: v :: r -> parse_ops r (OResolveInto (str_of_hex v) :: acc)
  | "c" :: sl :: r -> parse_ops r (OCloneInto (slot sl) :: acc)
  | "a" :: sl :: n :: v :: r -> parse_ops r (OSpAppend (slot sl, str_of_hex n, str_of_hex v) :: acc)
  | "d" :: sl :: n :: r -> parse_ops r (OSpDelete (slot sl, str_of_hex n) :: acc)
  | "t" :: sl :: n :: v :: r -> parse_ops r (OSpSet (slot sl, str_of_hex n, str_of_hex v) :: acc)
  | "o" :: sl :: r -> parse_ops r (OSpSort (slot sl) :: acc)
  | "O" :: sl :: r -> parse_ops r (OSpSortAbs (slot sl) :: acc)
  | "q" :: sl :: n :: r -> parse_ops r (OSpQuery (slot sl, str_of_hex n) :: acc)
  | "T" :: sl :: r -> parse_ops r (OSpTouch (slot sl) :: acc)
  | "A" :: sl :: r -> parse_ops r (OSpAdopt (slot sl) :: acc)
  | "i" :: sl :: md :: r -> parse_ops r (OSpIterate (slot sl, n_of_int (int_of_string md)) :: acc)
  | t :: _ -> failwith ("op " ^ t)

let show_res (c : cfg) (r : n list res) : string =
  match r with
  | Ok (u, h) -> "ok " ^ hex_of_str h ^ " " ^ hex_of_str (String.concat "," (List.map (fun e -> hex_of_str (verr_obs e)) u.u_verrs) |> fun s -> List.map (fun ch -> n_of_int (Char.code ch)) (List.of_seq (String.to_seq s)))
  | Er (u, e) -> "err " ^ hex_of_str (verr_obs e) ^ " " ^ hex_of_str (String.concat "," (List.map (fun e -> hex_of_str (verr_obs e)) u.u_verrs) |> fun s -> List.map (fun ch -> n_of_int (Char.code ch)) (List.of_seq (String.to_seq s)))

let handle (line : string) : string =
  let toks = List.filter (fun s -> s <> "") (String.split_on_char ' ' line) in
  match toks with
  | "CFG" :: r -> def_cfg r; "OK"
  | "PROF" :: r -> def_prof r; "OK"
  | ["P"; c; i] -> let c = Hashtbl.find cfgs c in show_obs (obs_pres c (parse idna c (str_of_hex i)))
  | ["R"; c; b; i] -> let c = Hashtbl.find cfgs c in show_obs (obs_pres c (parseRef idna c (str_of_hex b) (str_of_hex i)))
  | "HN" :: c :: ops ->
    (* a history that starts from the value of NewUrl() instead of a parse *)
    let c = Hashtbl.find cfgs c in
    let steps = hrun idna c (Some (empty_url []), None) (parse_ops ops []) in
    String.concat " ; " ("U" :: List.map (fun ((e, a), b) -> fields e ^ " , " ^ fields a ^ " , " ^ fields b) steps)
  | "H" :: c :: b :: i :: ops ->
    let c = Hashtbl.find cfgs c in
    let base = if b = "!" then None else Some (str_of_hex b) in
    let (o, steps) = history idna c base (str_of_hex i) (parse_ops ops []) in
    String.concat " ; " (show_obs o :: List.map (fun ((e, a), b) -> fields e ^ " , " ^ fields a ^ " , " ^ fields b) steps)
  | ["BP"; c; b; st; ov; i] ->
    (* direct BasicParser call: base "!" = nil; start "!" = nil, "@" = NewUrl(), else text to parse first *)
    let c = Hashtbl.find cfgs c in
    let base = if b = "!" then None else Some (str_of_hex b) in
    let start = if st = "!" then DNil else if st = "@" then DNew else DParsed (str_of_hex st) in
    (match direct idna c base start (n_of_int (int_of_string ov)) (str_of_hex i) with
     | None -> "SKIP"
     | Some l -> "D " ^ fields l)
  | ["CP"; p; i] -> let p = Hashtbl.find profs p in show_obs (obs_cres p.p_cfg (profileParse idna p (str_of_hex i)))
  | ["CR"; p; b; i] -> let p = Hashtbl.find profs p in show_obs (obs_cres p.p_cfg (profileParseRef idna p (str_of_hex b) (str_of_hex i)))
  | "INV" :: c :: fs -> let c = Hashtbl.find cfgs c in
    String.concat "," (List.map (fun x -> string_of_int (int_of_n x)) (inv_obs c (List.map str_of_hex fs)))
  | "ACC" :: c :: fs -> let c = Hashtbl.find cfgs c in
    String.concat "," (List.map (fun x -> string_of_int (int_of_n x)) (acc_obs c (List.map str_of_hex fs)))
  | ["S4"; i] -> (match spec_ipv4_parse (str_of_hex i) with Some a -> "ok " ^ hex_of_str (spec_ipv4_serialize a) | None -> "fail")
  | ["S4E"; i] -> if spec_ends_in_a_number (str_of_hex i) then "1" else "0"
  | ["S6"; i] -> (match spec_ipv6_parse (str_of_hex i) with
      | Some a -> "ok " ^ hex_of_str (spec_ipv6_serialize a) ^ " " ^ String.concat "," (List.map (fun x -> string_of_int (int_of_n x)) a)
      | None -> "fail")
  | "S6S" :: ps -> let a = List.map (fun s -> n_of_int (int_of_string s)) ps in
    let t = spec_ipv6_serialize a in
    hex_of_str t ^ " " ^ (match spec_ipv6_parse t with Some b -> if a = b then "rt" else "nort" | None -> "nort")
  | ["SSETR"; k; lo; n] ->
    let k = n_of_int (int_of_string k) and lo = int_of_string lo and n = int_of_string n in
    String.init n (fun i -> if spec_in_set k (n_of_int (lo + i)) then '1' else '0')
  | ["MSETR"; set; lo; n] ->
    let s = set_of set and lo = int_of_string lo and n = int_of_string n in
    String.init n (fun i -> let c = n_of_int (lo + i) in
      match runeShouldBeEncoded s c, runeNotInSet s c with
      | false, false -> '0' | true, false -> '1' | false, true -> '2' | true, true -> '3')
  | ["MDERIVE"; set; op; bits] ->
    let s = set_of set in let r = if op = "set" then pes_set s (str_of_hex bits) else pes_clear s (str_of_hex bits) in
    string_of_int (int_of_n r.ab) ^ "/" ^ hex_of_str (List.map n_of_int (List.sort_uniq compare (List.map int_of_n r.bits)))
  | ["SSET"; k; c] -> if spec_in_set (n_of_int (int_of_string k)) (n_of_int (int_of_string c)) then "1" else "0"
  | ["MSET"; set; c] -> let s = set_of set in let c = n_of_int (int_of_string c) in
    (if runeShouldBeEncoded s c then "1" else "0") ^ (if runeNotInSet s c then "1" else "0")
  | ["HOST"; c; ns; i] ->
    let c = Hashtbl.find cfgs c in
    let i = str_of_hex i in show_res c (parseHost idna c (empty_url i) i (ns = "1"))
  | ["V4"; c; i] -> let c = Hashtbl.find cfgs c in let i = str_of_hex i in show_res c (parseIPv4 c (empty_url i) i)
  | ["V6"; c; i] -> let c = Hashtbl.find cfgs c in let i = str_of_hex i in show_res c (parseIPv6 c (empty_url i) i)
  | ["OPQ"; c; i] -> let c = Hashtbl.find cfgs c in let i = str_of_hex i in show_res c (parseOpaqueHost c (empty_url i) i)
  | ["ENDS"; c; i] -> let c = Hashtbl.find cfgs c in let i = str_of_hex i in
    let (u, b) = endsInANumber c (empty_url i) i in (if b then "1" else "0") ^ " " ^ string_of_int (List.length u.u_verrs)
  | "V6S" :: ps -> hex_of_str (iPv6String (List.map (fun s -> n_of_int (int_of_string s)) ps))
  | ["V4S"; a] -> hex_of_str (iPv4String (n_of_int (int_of_string a)))
  | ["ENC"; c; set; s] -> let c = Hashtbl.find cfgs c in hex_of_str (percentEncodeString c (str_of_hex s) (set_of set))
  | ["DEC"; c; s] -> let c = Hashtbl.find cfgs c in hex_of_str (decodePercentEncoded c (str_of_hex s))
  | ["ENCB"; set; s] -> hex_of_str (percentEncodeBytes (str_of_hex s) (set_of set))
  | ["DE"; set; s] -> (match decodeEncode (str_of_hex s) (set_of set) with Some r -> hex_of_str r | None -> "FUEL")
  | ["RD"; s] -> (match repeatedDecode (str_of_hex s) with Some r -> hex_of_str r | None -> "FUEL")
  | ["RD1"; s] -> hex_of_str (repeatedDecode1 (str_of_hex s))
  | ["TOASCII"; c; s] -> let c = Hashtbl.find cfgs c in
    (match toASCII idna c (str_of_hex s) with Some a -> "ok " ^ hex_of_str a | None -> "err")
  | ["SPI"; c; q] -> let c = Hashtbl.find cfgs c in
    fields (List.concat_map (fun (a, b) -> [a; b]) (sp_init c (str_of_hex q)))
  | "SPS" :: c :: ps -> let c = Hashtbl.find cfgs c in
    let rec pairs l = match l with a :: b :: r -> (str_of_hex a, str_of_hex b) :: pairs r | _ -> [] in
    hex_of_str (sp_string c (pairs ps))
  | ["TRIM"; s] -> let (t, ch) = trim_c0space (str_of_hex s) in hex_of_str t ^ (if ch then " 1" else " 0")
  | ["REMOVE"; s] -> let (t, ch) = remove_tabnl (str_of_hex s) in hex_of_str t ^ (if ch then " 1" else " 0")
  | ["RUNES"; s] -> String.concat "," (List.map (fun x -> string_of_int (int_of_n x)) (runes (str_of_hex s)))
  | _ -> "BADREQ"

let () =
  try
    while true do
      let line = input_line stdin in
      let out = try handle line with
        | Not_found -> "BADCFG"
        | Failure m -> "FAIL " ^ m
        | Stack_overflow -> "STACKOVERFLOW" in
      print_string "= "; print_string out; print_newline ()
    done
  with End_of_file -> ()
