(* Line protocol around the extracted Spec (the independent Gallina transcription of the WHATWG URL Standard).
   No logic of its own: decode a request, call the extracted functions, print the result.
   The domain-to-ASCII oracle is answered by the peer over the same pipe.

   Requests (hex = lower-case hex of bytes, "-" = the empty string):
     P <hexinput>                                  parse without base
     R <hexbase> <hexinput>                        parse input against base
     S <hexhref> <k> <hexvalue> [<k> <hexvalue>..] parse href, apply the setters in order (k in 0..8 = protocol,
                                                   username, password, host, hostname, port, pathname, search, hash)
     FP <hexquery>                                 application/x-www-form-urlencoded parse
     FS <hexname> <hexvalue> ...                   application/x-www-form-urlencoded serialize
   Answers: one line "= ...":
     = F | = BASEFAIL | = FUEL | = ASSERT
     = U <href> <protocol> <username> <password> <host> <hostname> <port> <pathname> <search> <hash>
     for S: the start state, then " ; " and one group per setter
   Oracle: "Q <hex of the UTF-8 bytes>" is printed, one line "A <flag> <hex>" is read; flag 1 = failure. *)
open Spec

let rec pos_of_int (i : int) : positive =
  if i = 1 then XH else if i land 1 = 0 then XO (pos_of_int (i lsr 1)) else XI (pos_of_int (i lsr 1))
let n_of_int (i : int) : n = if i = 0 then N0 else Npos (pos_of_int i)
let rec int_of_pos (p : positive) : int =
  match p with XH -> 1 | XO q -> 2 * int_of_pos q | XI q -> 2 * int_of_pos q + 1
let int_of_n (x : n) : int = match x with N0 -> 0 | Npos p -> int_of_pos p

let hexval c = match c with
  | '0'..'9' -> Char.code c - 48 | 'a'..'f' -> Char.code c - 87 | 'A'..'F' -> Char.code c - 55
  | _ -> failwith "hex"
let str_of_hex (s : string) : n list =
  if s = "-" then [] else begin
    if String.length s land 1 = 1 then failwith "hex";
    let r = ref [] in
    let l = String.length s / 2 in
    for i = l - 1 downto 0 do
      r := n_of_int (hexval s.[2*i] * 16 + hexval s.[2*i+1]) :: !r
    done; !r end
let hex_of_str (l : n list) : string =
  if l = [] then "-" else begin
    let b = Buffer.create 64 in
    List.iter (fun x -> Buffer.add_string b (Printf.sprintf "%02x" (int_of_n x))) l;
    Buffer.contents b end

(* the oracle: ask the peer *)
let dta (s : n list) : n list option =
  print_string "Q "; print_string (hex_of_str s); print_newline ();
  let line = input_line stdin in
  match String.split_on_char ' ' line with
  | ["A"; f; h] -> if f = "1" then None else Some (str_of_hex h)
  | _ -> failwith ("bad oracle answer: " ^ line)

(* input bytes -> code points (every invalid byte becomes U+FFFD); output strings -> UTF-8 bytes (they are ASCII) *)
let cps_of_hex (h : string) : n list = runes (str_of_hex h)
let hex_of_cps (l : n list) : string = hex_of_str (encode_runes l)

let show_url (u : surl) : string = "U " ^ String.concat " " (List.map hex_of_cps (observe u))

let show_api (r : api_result) : string =
  match r with
  | ApiOk u -> show_url u
  | ApiFailure -> "F"
  | ApiBaseFailure -> "BASEFAIL"
  | ApiOutOfFuel -> "FUEL"
  | ApiAssertViolated -> "ASSERT"

let rec run_setters (u : surl) (toks : string list) (acc : string list) : string list =
  match toks with
  | [] -> List.rev acc
  | k :: v :: rest ->
    let k = int_of_string k in
    if k < 0 || k > 8 then failwith "setter";
    (match apply_setter dta (n_of_int k) u (cps_of_hex v) with
     | Done u' -> run_setters u' rest (show_url u' :: acc)
     | Failed u' -> run_setters u' rest (show_url u' :: acc)   (* not produced by the setters *)
     | OutOfFuel -> List.rev ("FUEL" :: acc)
     | AssertViolated -> List.rev ("ASSERT" :: acc))
  | _ -> failwith "setter args"

let rec pairs (l : string list) : (n list * n list) list =
  match l with
  | a :: b :: r -> (cps_of_hex a, cps_of_hex b) :: pairs r
  | [] -> []
  | _ -> failwith "odd number of fields"

let handle (line : string) : string =
  let toks = List.filter (fun s -> s <> "") (String.split_on_char ' ' line) in
  match toks with
  | ["P"; i] -> show_api (api_url_parse dta (cps_of_hex i) None)
  | ["R"; b; i] -> show_api (api_url_parse dta (cps_of_hex i) (Some (cps_of_hex b)))
  | "S" :: h :: ops ->
    (match api_url_parse dta (cps_of_hex h) None with
     | ApiOk u -> String.concat " ; " (show_url u :: run_setters u ops [])
     | r -> show_api r)
  | "SB" :: b :: h :: ops ->
    (match api_url_parse dta (cps_of_hex h) (Some (cps_of_hex b)) with
     | ApiOk u -> String.concat " ; " (show_url u :: run_setters u ops [])
     | r -> show_api r)
  | ["FP"; q] ->
    String.concat " " (List.concat_map (fun (a, b) -> [hex_of_cps a; hex_of_cps b]) (urlencoded_parse (str_of_hex q)))
  | "FS" :: ps -> hex_of_cps (urlencoded_serialize (pairs ps))
  | _ -> "BADREQ"

let () =
  try
    while true do
      let line = input_line stdin in
      let out = try handle line with
        | Failure m -> "FAIL " ^ m
        | Stack_overflow -> "STACKOVERFLOW" in
      print_string "= "; print_string out; print_newline ()
    done
  with End_of_file -> ()
